"""C15 - saving and loading a network loses nothing (round trip through the four storage paths)."""
from __future__ import annotations

import copy
import io
import math
import os
import tempfile

import numpy as np
import pandas as pd
from hypothesis import strategies as st

from .. import gen, genheat
from ..recipe import abbreviate, build, solve
from ..runner import Finding, Outcome, derive_seed, run_given
from .c12 import fluid_fingerprint, std_fingerprint

RULE = ("cases = (recipe of a hydraulic or heating net with every component type, decorations: None / string names, extra "
        "columns, non-contiguous labels, user-defined fluid properties of the classes Constant / Linear / InterExtra / "
        "Polynominal, pump types from lists and from coefficients, user options, a ConstControl with DFData, results present or "
        "not; storage path in {JSON string, JSON file, encrypted JSON, pickle}; multinets (pandapower example_simple + gas net "
        "+ P2G controller) through the JSON paths). Oracles: pandapipes.nets_equal, an own table-by-table comparison (values, "
        "dtypes, index dtype, column set), fluid / std-type fingerprints, component list, sector, name, user options, and a "
        "pipeflow on the loaded net with bit-equal results. Non-trivial = >= 4 component types and (a user-defined fluid "
        "property or a generated pump type or a controller). Distinct = distinct case hash.")
ASSUMPTIONS = ["the JSON format keeps 15 decimal places of a float (pandas double_precision=15 in pandapower's encoder): JSON round "
               "trips are compared with 1e-15 absolute + 1e-14 relative tolerance and their pipeflow results with 1e-7; pickle "
               "round trips bit-exactly; subnormal floats are not generated (the JSON decoder rejects them)",
               "from_json documents that the row order is not kept: tables are compared after sorting by index",
               "to_pickle / from_pickle are documented for pandapipes nets only; multinets use the JSON paths"]
EX = {"quick": 16, "thorough": 600}
PATHS = ["json_string", "json_file", "json_encrypted", "pickle"]


@st.composite
def case_strategy(draw, tier):
    multinet = draw(st.integers(0, 5)) == 0
    if draw(st.integers(0, 2)) == 0 and not multinet:
        rec = draw(genheat.heat_net(max_n=3, allow_oos=True))
        opts = {"mode": "sequential", "iter": 60}
    else:
        kw = dict(fluids=["lgas", "hgas", "hydrogen", "methane"]) if multinet else {}     # coupling needs a heating value
        rec, opts = draw(gen.hyd_case(max_n=7, tight=False, gases_only=multinet, allow_pi=not multinet, **kw))
        opts["mode"] = "hydraulics"
    deco = {"names": draw(st.booleans()), "extra_cols": draw(st.booleans()),
            "fluid_props": draw(st.lists(st.sampled_from(["constant", "linear", "interextra", "interextra_noextra", "polynominal"]), max_size=3, unique=True)),
            "pump_type": draw(st.sampled_from([None, None, "lists", "coeffs"])),
            "user_opts": draw(st.sampled_from([None, {"tol_m": 1e-6}, {"friction_model": "nikuradse", "iter": 55}])),
            "controller": draw(st.booleans()), "with_results": draw(st.booleans()), "mass_storage_default": draw(st.integers(0, 5)) == 0,
            "geodata": draw(st.booleans())}
    return {"recipe": rec, "options": opts, "deco": deco, "path": draw(st.sampled_from(PATHS if not multinet else PATHS[:3])),
            "multinet": multinet, "twice": draw(st.integers(0, 2)) == 0}


def decorate(net, rec, deco):
    import pandapipes as pp
    from pandapipes.properties import fluids as fl
    if deco["names"]:
        for t in ("junction", "pipe", "sink"):
            if t in net and len(net[t]):
                net[t]["name"] = [("n%d" % i if i % 2 else None) for i in range(len(net[t]))]
    if deco["extra_cols"]:
        net.junction["zone"] = ["z%d" % (i % 3) for i in range(len(net.junction))]
        if "pipe" in net and len(net.pipe):
            net.pipe["my_float"] = np.arange(len(net.pipe)) * 1.5
            net.pipe["my_int"] = np.arange(len(net.pipe), dtype=np.int64)
    for k in deco["fluid_props"]:
        if k == "constant":
            net.fluid.add_property("my_constant", fl.FluidPropertyConstant(3.25))
        elif k == "linear":
            net.fluid.add_property("my_linear", fl.FluidPropertyLinear(0.5, 10.0))
        elif k == "interextra":
            net.fluid.add_property("my_table", fl.FluidPropertyInterExtra(np.array([250.0, 300.0, 400.0]), np.array([1.0, 2.0, 2.5])))
        elif k == "interextra_noextra":
            net.fluid.add_property("my_table2", fl.FluidPropertyInterExtra(np.array([260.0, 300.0, 380.0]), np.array([3.0, 2.0, 2.5]),
                                                                          method="interpolate"))
        elif k == "polynominal":
            net.fluid.add_property("my_poly", fl.FluidPropertyPolynominal(np.array([250.0, 300.0, 350.0, 400.0]), np.array([1.0, 2.0, 2.6, 2.9]), 2))
    js = list(net.junction.index)
    if deco["pump_type"] and len(js) >= 2 and not net.fluid.is_gas:
        if deco["pump_type"] == "lists":
            pp.create_pump_from_parameters(net, js[0], js[1], "gen_pump", pressure_list=[6.0, 5.0, 3.0], flowrate_list=[0.0, 20.0, 80.0],
                                           reg_polynomial_degree=2, in_service=False)
        else:
            pp.create_pump_from_parameters(net, js[0], js[1], "gen_pump2", poly_coefficents=[-1e-3, 0.01, 5.0], in_service=False)
    if deco["user_opts"]:
        pp.set_user_pf_options(net, **deco["user_opts"])
    if deco["mass_storage_default"]:
        pp.create_mass_storage(net, js[0], 0.0)
    if deco["geodata"]:
        net.junction_geodata.loc[js[0], ["x", "y"]] = [1.5, 2.5]
        if "pipe" in net and len(net.pipe):
            net.pipe_geodata.at[net.pipe.index[0], "coords"] = [(0.0, 0.0), (1.0, 2.0)]
    if deco["controller"] and "sink" in net and len(net.sink):
        from pandapower.control import ConstControl
        from pandapower.timeseries import DFData
        prof = pd.DataFrame({"a": [0.01, 0.02, 0.03]})
        ConstControl(net, "sink", "mdot_kg_per_s", element_index=[int(net.sink.index[0])], data_source=DFData(prof), profile_name=["a"])


def scribble(loaded):
    """What a user may do with a loaded net: change it in place (fluid properties, pump curves, standard types, tables).
    A later load of the same stored text must not see any of it."""
    import pandapipes as pp
    nets = [loaded.nets[k] for k in loaded.nets if type(loaded.nets[k]).__name__ == "pandapipesNet"] if hasattr(loaded, "nets") \
        and "nets" in loaded else [loaded]
    for n in nets:
        try:
            if n.fluid is not None:
                pp.create_constant_property(n, "density", 1234.5, overwrite=True)
                for pr in list(n.fluid.all_properties.values()):
                    for attr in ("value", "offset", "slope"):
                        if hasattr(pr, attr) and isinstance(getattr(pr, attr), (int, float)):
                            setattr(pr, attr, getattr(pr, attr) * 3.0 + 1.0)
            for name, t in n.std_types.get("pump", {}).items():
                if hasattr(t, "reg_par") and isinstance(t.reg_par, np.ndarray):
                    t.reg_par *= 0.5
            for name, t in n.std_types.get("pipe", {}).items():
                if isinstance(t, dict) and "inner_diameter_mm" in t:
                    t["inner_diameter_mm"] = 1.0
            if len(n.junction):
                n.junction["pn_bar"] = n.junction["pn_bar"] * 2.0
        except Exception:
            pass


def round_trip(obj, path, twice=False):
    """save, load; with `twice`: the first loaded copy is changed in place, then the same stored text / file is loaded again"""
    import pandapipes as pp
    if path == "json_string":
        txt = pp.to_json(obj)
        first = pp.from_json_string(txt)
        if not twice:
            return first
        scribble(first)
        return pp.from_json_string(txt)
    with tempfile.TemporaryDirectory(prefix="vp_c15_") as d:
        if path == "json_file":
            fn = os.path.join(d, "net.json")
            pp.to_json(obj, fn)
            load = lambda: pp.from_json(fn)
        elif path == "json_encrypted":
            fn = os.path.join(d, "net_enc.json")
            pp.to_json(obj, fn, encryption_key="s3cret")
            load = lambda: pp.from_json(fn, encryption_key="s3cret")
        else:
            fn = os.path.join(d, "net.p")
            pp.to_pickle(obj, fn)
            load = lambda: pp.from_pickle(fn)
        first = load()
        if not twice:
            return first
        scribble(first)
        return load()


def null(v):
    return v is None or (isinstance(v, float) and math.isnan(v)) or v is pd.NA


FLOAT_REL = [0.0]     # 0 for pickle; JSON keeps 15 decimal places (pandas' double_precision=15, used by the encoder)
FLOAT_ABS = [0.0]


def cell_equal(x, y):
    if null(x) and null(y):
        return True
    if isinstance(x, (list, tuple, np.ndarray)) or isinstance(y, (list, tuple, np.ndarray)):
        try:
            return np.array_equal(np.asarray(x, dtype=float), np.asarray(y, dtype=float))
        except Exception:
            return list(x) == list(y)
    if isinstance(x, (float, np.floating)) or isinstance(y, (float, np.floating)):
        try:
            return float(x) == float(y) or abs(float(x) - float(y)) <= FLOAT_REL[0] * max(abs(float(x)), abs(float(y))) + FLOAT_ABS[0]
        except Exception:
            return False
    return x == y


def compare_net(a, b, f, tag):
    keys_a = {k for k in a.keys() if not k.startswith("_")}
    keys_b = {k for k in b.keys() if not k.startswith("_")}
    if keys_a != keys_b:
        f.append(Finding("content", "C15.keys." + tag, {"only_original": sorted(keys_a - keys_b), "only_loaded": sorted(keys_b - keys_a)}))
    for k in sorted(keys_a & keys_b):
        x, y = a[k], b[k]
        if isinstance(x, pd.DataFrame):
            if not isinstance(y, pd.DataFrame):
                f.append(Finding("content", "C15.table_type." + k, {"loaded_type": type(y).__name__}))
                continue
            if k == "controller":
                if len(x) != len(y) or [type(o).__name__ for o in x.object.values] != [type(o).__name__ for o in y.sort_index().object.values]:
                    f.append(Finding("content", "C15.controller", {"original": len(x), "loaded": len(y)}))
                continue
            xs, ys = x.sort_index(), y.sort_index()
            if list(xs.index) != list(ys.index):
                f.append(Finding("content", "C15.table_index." + k, {"original": list(xs.index)[:8], "loaded": list(ys.index)[:8]}))
                continue
            if set(xs.columns) != set(ys.columns):
                f.append(Finding("content", "C15.table_columns." + k, {"only_original": sorted(set(xs.columns) - set(ys.columns)),
                                                                      "only_loaded": sorted(set(ys.columns) - set(xs.columns))}))
                continue
            if len(xs) and xs.index.dtype != ys.index.dtype:
                f.append(Finding("content", "C15.index_dtype." + k, {"original": str(xs.index.dtype), "loaded": str(ys.index.dtype)}))
            for c in xs.columns:
                if len(xs) and xs[c].dtype != ys[c].dtype:
                    f.append(Finding("content", "C15.dtype.%s.%s" % (k, c), {"original": str(xs[c].dtype), "loaded": str(ys[c].dtype)}))
                    break
                bad = [i for i, (u, v) in enumerate(zip(xs[c].values, ys[c].values)) if not cell_equal(u, v)]
                if bad:
                    u, v = xs[c].values[bad[0]], ys[c].values[bad[0]]
                    kind = "inf_to_nan." if (isinstance(u, (float, np.floating)) and math.isinf(float(u)) and null(v)) else ""
                    f.append(Finding("content", "C15.value.%s%s.%s" % (kind, k, c), {"row": str(xs.index[bad[0]]), "original": repr(xs[c].values[bad[0]]),
                                                                           "loaded": repr(ys[c].values[bad[0]])}))
                    break
        elif k == "fluid":
            fa, fb = fluid_fingerprint(x), fluid_fingerprint(y) if hasattr(y, "all_properties") else repr(type(y))
            if fa != fb:
                diff = [p for p in (fa or {}).get("props", {}) if not isinstance(fb, dict) or fa["props"][p] != fb.get("props", {}).get(p)]
                cls = sorted({fa["props"][p][0] for p in diff}) if diff else ["?"]
                f.append(Finding("content", "C15.fluid." + "+".join(cls), {"properties": diff, "original": {p: fa["props"][p] for p in diff[:2]},
                                                                          "loaded": {p: (fb.get("props", {}).get(p) if isinstance(fb, dict) else fb) for p in diff[:2]}}))
        elif k == "std_types":
            if std_fingerprint(x) != std_fingerprint(y):
                sa, sb = std_fingerprint(x), std_fingerprint(y)
                d = [kk for kk in set(sa) | set(sb) if sa.get(kk) != sb.get(kk)]
                f.append(Finding("content", "C15.std_types", {"differing": [repr(kk) for kk in d[:4]]}))
        elif k == "component_list":
            if [c.__name__ for c in x] != [c.__name__ for c in y]:
                f.append(Finding("content", "C15.component_list", {"original": [c.__name__ for c in x], "loaded": [getattr(c, "__name__", repr(c)) for c in y]}))
        elif k == "user_pf_options":
            if dict(x) != dict(y):
                f.append(Finding("content", "C15.user_pf_options", {"original": dict(x), "loaded": dict(y)}))
        elif k in ("name", "sector", "converged", "version", "format_version"):
            if not (x == y):
                f.append(Finding("content", "C15.attribute." + k, {"original": repr(x), "loaded": repr(y)}))


def evaluate(case):
    import pandapipes as pp
    rec, opts, deco = copy.deepcopy(case["recipe"]), case["options"], case["deco"]
    for e in rec["elements"]:
        if e["table"] == "mass_storage":
            e.setdefault("max_m_stored_kg", 1.0e6)      # the default (inf) is the subject of a known finding; see deco
    net = build(rec)
    decorate(net, rec, deco)
    labels = {"path:" + case["path"], "multinet" if case["multinet"] else "single"} | ({"loaded_twice"} if case.get("twice") else set())
    f = []
    if deco["with_results"]:
        r = solve(net, **opts)
        labels.add("results:" + r.status)
    obj = net
    if case["multinet"]:
        import pandapower as ppow
        from pandapower import networks as e_nw
        from pandapipes.multinet.create_multinet import add_nets_to_multinet, create_empty_multinet
        from pandapipes.multinet.control.controller.multinet_control import P2GControlMultiEnergy
        pw = e_nw.example_simple()
        mn = create_empty_multinet("mn")
        add_nets_to_multinet(mn, power=pw, gas=net)
        ld = ppow.create_load(pw, 5, 1.0)
        so = pp.create_source(net, int(net.junction.index[0]), 0.0)
        P2GControlMultiEnergy(mn, ld, so, 0.7)
        obj = mn
    try:
        loaded = round_trip(obj, case["path"], twice=bool(case.get("twice")))
    except Exception as e:
        from ..recipe import exc_sig
        f.append(Finding("round_trip", "C15.round_trip.raises.%s.%s" % (case["path"], exc_sig(e)), {"exc": repr(e)[:300]}))
        return Outcome(findings=f, labels=labels, nontrivial=True, sample=_sample(case))
    if case["multinet"]:
        if type(loaded).__name__ != type(obj).__name__ or set(loaded.nets.keys()) != set(obj.nets.keys()):
            f.append(Finding("content", "C15.multinet.structure", {"loaded_type": type(loaded).__name__}))
            return Outcome(findings=f, labels=labels, nontrivial=True, sample=_sample(case))
        if len(loaded.controller) != len(obj.controller) or type(loaded.controller.object.iat[0]).__name__ != "P2GControlMultiEnergy":
            f.append(Finding("content", "C15.multinet.controller", {}))
        if type(loaded.nets["power"]).__name__ != type(obj.nets["power"]).__name__:
            f.append(Finding("content", "C15.multinet.member_type", {"loaded": type(loaded.nets["power"]).__name__}))
        a, b = obj.nets["gas"], loaded.nets["gas"]
    else:
        a, b = obj, loaded
    if type(b).__name__ != "pandapipesNet":
        f.append(Finding("content", "C15.loaded_type", {"type": type(b).__name__}))
        return Outcome(findings=f, labels=labels, nontrivial=True, sample=_sample(case))
    try:
        eq = pp.nets_equal(a, b)
    except Exception as e:
        eq = repr(e)
    FLOAT_REL[0] = 0.0 if case["path"] == "pickle" else 1e-14
    FLOAT_ABS[0] = 0.0 if case["path"] == "pickle" else 1e-15
    compare_net(a, b, f, case["path"])
    if eq is not True and not f:
        f.append(Finding("content", "C15.nets_equal", {"nets_equal": repr(eq)[:200]}))
    # pipeflow on the loaded net
    if not f:
        a2, b2 = copy.deepcopy(a), b
        ra, rb = solve(a2, **opts), solve(b2, **opts)
        if ra.status != rb.status and case["path"] != "pickle" and {ra.status, rb.status} == {"ok", "not_converged"}:
            # inputs that differ by the JSON precision can put a run just on the other side of the iteration limit: the
            # verdict only counts if it persists with a generous limit (same policy as C07)
            a2, b2 = copy.deepcopy(a), copy.deepcopy(b)
            big = dict({k_: v_ for k_, v_ in opts.items() if not k_.startswith("max_iter")}, iter=400)
            ra, rb = solve(a2, **big), solve(b2, **big)
            labels.add("verdict_rechecked_with_iter_400")
        from ..compare import stagnant_lift
        if case["path"] != "pickle" and (stagnant_lift(a2, b2) or (ra.status != rb.status and any(
                t_ in a2 and len(a2[t_]) for t_ in ("pump", "compressor")))):
            labels.add("pipeflow_not_compared:stagnant_pump_or_compressor")
        elif ra.status != rb.status and opts.get("friction_model", "nikuradse") != "nikuradse" and case["path"] != "pickle" and \
                {ra.status, rb.status} == {"ok", "not_converged"}:
            # Colebrook-White / Swamee-Jain are erratic on weakly loaded branches (gen.hyd_case): with inputs that differ by the
            # JSON precision the verdict can differ; same discard as in C06 / C09
            labels.add("pipeflow_not_compared:verdict_under_turbulent_only_friction_model")
        elif ra.status != rb.status:
            f.append(Finding("pipeflow", "C15.pipeflow.status", {"original": ra.status, "loaded": rb.status, "exc": repr(rb.exc)[:200]}))
        elif ra.ok and case["path"] != "pickle":
            # inputs differ by the JSON precision (1e-15 absolute): cross-run tolerance policy
            from ..compare import compare_nets
            # with the default solver tolerances (tol_p = tol_m = 1e-5) the two runs may stop one Newton step apart when an
            # error is close to its threshold, so they agree to the solver tolerance only (same policy as C04's differential)
            tolkw = dict(ptol=1e-7, ttol=1e-5, mrel=1e-6, drel=1e-5, mabs=1e-7) if "tol_m" in opts else \
                dict(ptol=1e-3, ttol=1e-2, mrel=1e-3, drel=1e-2, mabs=1e-4)   # dp_friction_loss_bar lags a Newton step: 1.7e-4 seen
            for d_ in compare_nets(a2, b2, **tolkw)[:1]:
                f.append(Finding("pipeflow", "C15.pipeflow.results", d_))
        elif ra.ok:
            for t in [k for k in a2.keys() if k.startswith("res_") and isinstance(a2[k], pd.DataFrame)]:
                x, y = a2[t].sort_index(), b2[t].sort_index()
                same = x.shape == y.shape and (np.array_equal(x.values.astype(float), y.values.astype(float), equal_nan=True)
                                               if case["path"] == "pickle" else
                                               np.allclose(x.values.astype(float), y.values.astype(float), rtol=1e-7, atol=1e-9, equal_nan=True))
                if not same:
                    f.append(Finding("pipeflow", "C15.pipeflow.results", {"table": t}))
                    break
    ntab = len({e["table"] for e in rec["elements"]})
    special = bool(deco["fluid_props"]) or bool(deco["pump_type"]) or deco["controller"] or case["multinet"]
    for k in deco["fluid_props"]:
        labels.add("fluid_prop:" + k)
    return Outcome(findings=f, labels=labels, nontrivial=ntab >= 4 and special, sample=_sample(case))


def _sample(case):
    return {"recipe": abbreviate(case["recipe"]), "deco": case["deco"], "path": case["path"], "multinet": case["multinet"],
            "loaded_twice": bool(case.get("twice"))}


def run_shard(coll, tier, seed, shard, nshards, known):
    run_given(case_strategy(tier), evaluate, EX[tier], derive_seed("C15", seed, shard), coll, known, shrink_s=40)


def replay(case):
    return evaluate(case)

"""C09 - physically equivalent descriptions of a network give identical results.

Metamorphic rewrites recipe -> recipe (both built from scratch through the public API):
reverse   swap from/to of a subset of pipes / ju-valves / heat exchangers
split     pipe with n sections  <->  n pipes of L/n in series through new junctions
merge     liquid at uniform temperature: n sections <-> 1 section
loads     several sinks/sources/storages on a junction <-> one sink with the summed scaled flow; source <-> negative sink
remove    out-of-service element / closed valve <-> absent
shift     liquids: all fixed pressures + c  =>  all pressures + c, flows unchanged
"""
from __future__ import annotations

import copy

import numpy as np
import pandas as pd
from hypothesis import strategies as st

from .. import gen, genheat
from ..compare import compare_frames, cond_flow_tol, flow_scale
from ..recipe import abbreviate, build, solve
from ..runner import Finding, Outcome, derive_seed, run_given

RULE = ("cases = (recipe, rewrite kind, generated selectors, options): hydraulic nets of all fluids and heating loops (sequential / "
        "bidirectional); rewrite applied to a generated subset of eligible elements. Results of corresponding elements are compared "
        "with the cross-run tolerance (flows change sign and from/to columns swap for reversed branches; a split pipe is compared "
        "through its end pressures, flow, outlet temperature and the junction results). Non-trivial = the rewrite touched an "
        "element that carries flow (|mdot| > 1e-6) in a net with >= 3 junctions (for 'remove': an element was removed). "
        "Distinct = distinct case hash.")
ASSUMPTIONS = ["the loss coefficient of a split pipe is distributed evenly over the parts",
               "new junctions of a split pipe get the interpolated height, start pressure and fluid temperature of the internal nodes",
               "reversal is applied to pipes, junction-junction valves and heat exchangers (components without orientation semantics)"]
EX = {"quick": 40, "thorough": 1500}
KINDS = ["reverse", "reverse", "split", "merge", "loads", "remove", "shift"]

SWAP = [("p_from_bar", "p_to_bar"), ("t_from_k", "t_to_k"), ("mdot_from_kg_per_s", "mdot_to_kg_per_s"),
        ("v_from_m_per_s", "v_to_m_per_s"), ("normfactor_from", "normfactor_to")]
NEG = ["v_mean_m_per_s", "vdot_m3_per_s", "vdot_norm_m3_per_s", "v_from_m_per_s", "v_to_m_per_s"]


@st.composite
def case_strategy(draw, tier):
    kind = draw(st.sampled_from(KINDS))
    heat = draw(st.integers(0, 3)) == 0 and kind in ("reverse", "split", "remove", "shift")
    if heat:
        rec = draw(genheat.heat_net(max_n=4 if tier == "quick" else 7, allow_oos=(kind == "remove"), labels=False))
        opts = draw(genheat.heat_options())
    else:
        kw = {}
        if kind in ("merge", "shift"):
            kw = dict(liquids_only=True, t_uniform=(kind == "merge"))
        rec, opts = draw(gen.hyd_case(max_n=8 if tier == "quick" else 20, tight=True, labels=False, fm_weights=(10, 1, 1), **kw))
        opts["mode"] = "hydraulics"
    rec.pop("row_order", None)
    sel = draw(st.lists(st.booleans(), min_size=40, max_size=40))
    pipes = [e for e in rec["elements"] if e["table"] == "pipe"]
    pi_pipes = {e["element"] for e in rec["elements"] if e["table"] == "valve" and e["et"] == "pi"}
    if kind in ("split", "merge") and pipes:
        cand = [p for p in pipes if p["index"] not in pi_pipes] or pipes
        cand[draw(st.integers(0, len(cand) - 1))]["sections"] = draw(st.integers(2, 4))
        sel[0] = True
    if kind == "remove":
        cand = [e for e in rec["elements"] if e["table"] not in ("ext_grid", "circ_pump_pressure", "circ_pump_mass")
                and not (e["table"] == "valve" and e["et"] == "pi") and not (e["table"] == "pipe" and e["index"] in pi_pipes)]
        if cand:
            e = cand[draw(st.integers(0, len(cand) - 1))]
            if e["table"] == "valve":
                e["opened"] = False
            else:
                e["in_service"] = False
    if kind == "reverse":
        sel[0] = True
    return {"kind": kind, "recipe": rec, "options": opts, "sel": sel, "c": draw(st.sampled_from([0.5, 2.5, -0.7]))}


def uniform_temperature(rec):
    for j in rec["junction"]:
        j["tfluid_k"] = rec["junction"][0]["tfluid_k"]
    for e in rec["elements"]:
        if e["table"] == "ext_grid":
            e["t_k"] = rec["junction"][0]["tfluid_k"]


def rewrite(case):
    """returns (rec_a, rec_b, spec) or None if nothing to rewrite."""
    kind, sel = case["kind"], case["sel"]
    a = copy.deepcopy(case["recipe"])
    if kind == "merge":
        uniform_temperature(a)
    b = copy.deepcopy(a)
    spec = {"reversed": {}, "skip_tables": set(), "touched": [], "split": {}, "shift": 0.0, "removed": {}}
    pi_pipes = {e["element"] for e in a["elements"] if e["table"] == "valve" and e["et"] == "pi"}
    if kind == "reverse":
        k = 0
        for e in b["elements"]:
            t = e["table"]
            if t in ("pipe", "heat_exchanger") or (t == "valve" and e["et"] == "ju"):
                if sel[k % len(sel)]:
                    x, y = ("junction", "element") if t == "valve" else ("from_junction", "to_junction")
                    e[x], e[y] = e[y], e[x]
                    spec["reversed"].setdefault(t, set()).add(e["index"])
                    spec["touched"].append((t, e["index"]))
                k += 1
    elif kind == "split":
        newj = max(j["index"] for j in a["junction"]) + 1
        newp = max([e["index"] for e in a["elements"] if e["table"] == "pipe"] + [-1]) + 1
        jd = {j["index"]: j for j in a["junction"]}
        out = []
        k = 0
        for e in b["elements"]:
            if e["table"] == "pipe" and e.get("sections", 1) > 1 and e["index"] not in pi_pipes and sel[k % len(sel)]:
                n = e["sections"]
                fj, tj = jd[e["from_junction"]], jd[e["to_junction"]]
                chain = [e["from_junction"]]
                for i in range(1, n):
                    w = i / n
                    b["junction"].append({"index": newj, "pn_bar": fj["pn_bar"] + (tj["pn_bar"] - fj["pn_bar"]) * w,
                                          "tfluid_k": fj["tfluid_k"] + (tj["tfluid_k"] - fj["tfluid_k"]) * w,
                                          "height_m": fj["height_m"] + (tj["height_m"] - fj["height_m"]) * w, "in_service": True})
                    chain.append(newj)
                    newj += 1
                chain.append(e["to_junction"])
                parts = []
                for i in range(n):
                    p = dict(e, index=(e["index"] if i == 0 else newp), from_junction=chain[i], to_junction=chain[i + 1],
                             length_km=e["length_km"] / n, loss_coefficient=e["loss_coefficient"] / n, sections=1)
                    if i > 0:
                        newp += 1
                    parts.append(p)
                    out.append(p)
                spec["split"][e["index"]] = [p["index"] for p in parts]
                spec["touched"].append(("pipe", e["index"]))
            else:
                out.append(e)
            if e["table"] == "pipe":
                k += 1
        b["elements"] = out
    elif kind == "merge":
        k = 0
        for e in b["elements"]:
            if e["table"] == "pipe" and e.get("sections", 1) > 1:
                if sel[k % len(sel)]:
                    e["sections"] = 1
                    spec["touched"].append(("pipe", e["index"]))
                k += 1
    elif kind == "loads":
        byj = {}
        for e in a["elements"]:
            if e["table"] in ("sink", "source", "mass_storage") and e.get("in_service", True):
                sign = -1.0 if e["table"] == "source" else 1.0
                byj.setdefault(e["junction"], []).append(sign * e["mdot_kg_per_s"] * e.get("scaling", 1.0))
        b["elements"] = [e for e in b["elements"] if e["table"] not in ("sink", "source", "mass_storage")]
        for i, (j, vals) in enumerate(sorted(byj.items())):
            tot = sum(vals)
            if sel[i % len(sel)] or tot >= 0:
                b["elements"].append({"table": "sink", "index": i, "junction": j, "mdot_kg_per_s": tot, "scaling": 1.0, "in_service": True})
            else:
                b["elements"].append({"table": "source", "index": i, "junction": j, "mdot_kg_per_s": -tot, "scaling": 1.0, "in_service": True})
            if len(vals) > 1 or True:
                spec["touched"].append(("junction", j))
        spec["skip_tables"] |= {"res_sink", "res_source", "res_mass_storage"}
    elif kind == "remove":
        keep = []
        removed_pipes = set()
        for e in b["elements"]:
            off = (e["table"] == "valve" and not e.get("opened", True)) or (e["table"] != "valve" and not e.get("in_service", True))
            if off and not (e["table"] == "valve" and e["et"] == "pi"):
                if e["table"] == "pipe" and e["index"] in pi_pipes:
                    keep.append(e)
                    continue
                spec["removed"].setdefault(e["table"], set()).add(e["index"])
                spec["touched"].append((e["table"], e["index"]))
                if e["table"] == "pipe":
                    removed_pipes.add(e["index"])
            else:
                keep.append(e)
        b["elements"] = keep
    elif kind == "shift":
        c = case["c"]
        spec["shift"] = c
        for e in b["elements"]:
            if e["table"] == "ext_grid" and e.get("p_bar") is not None:
                e["p_bar"] += c
            if e["table"] in ("circ_pump_pressure", "circ_pump_mass"):
                e["p_flow_bar"] += c
            if e["table"] == "press_control":
                e["controlled_p_bar"] += c
        for j in b["junction"]:
            j["pn_bar"] += c
        spec["touched"].append(("all", 0))
    if not spec["touched"]:
        return None
    return a, b, spec


def reversed_frame(df, idxs, gas=False, hyd_ref=None):
    df = df.copy()
    rows = [i for i in df.index if i in idxs]
    if not rows:
        return df
    # b's "from" end is a's "to" end. Quantities at an end swap columns (mdot_from(a) = flow leaving a's from end
    # = b's mdot_to); velocities are signed along the declared direction, so they also change sign, as do the
    # branch-wide signed quantities.
    for x, y in SWAP:
        if x in df.columns and y in df.columns:
            tmp = df.loc[rows, x].copy()
            df.loc[rows, x] = df.loc[rows, y]
            df.loc[rows, y] = tmp
    for c in NEG:
        if c in df.columns:
            df.loc[rows, c] = -df.loc[rows, c]
    if "dp_friction_loss_bar" in df.columns and not gas:
        df.loc[rows, "dp_friction_loss_bar"] = -df.loc[rows, "dp_friction_loss_bar"]
    return df


def evaluate(case):
    rw = rewrite(case)
    if rw is None and case["kind"] != "reverse":
        # the drawn rewrite does not apply to this recipe (e.g. no junction with two loads): use the one that always applies
        case = dict(case, kind="reverse", sel=[True] + list(case["sel"][1:]))
        rw = rewrite(case)
    if rw is None:
        return Outcome(discard="nothing_to_rewrite")
    ra, rb, spec = rw
    opts = case["options"]
    na, nb = build(ra), build(rb)
    sa, sb = solve(na, **opts), solve(nb, **opts)
    kind = case["kind"]
    labels = {"kind:" + kind, "mode:" + opts["mode"], "gas" if na.fluid.is_gas else "liquid"}
    f = []
    labels_extra = set()
    has_lift = any(e["table"] in ("pump", "compressor") for e in ra["elements"])
    if sa.status != sb.status and "rejected" in (sa.status, sb.status):
        # one description ended in a state with negative pressure (recipe.solve), e.g. before the pressures were shifted up
        return Outcome(discard="one_description_in_negative_pressure_state")
    if {sa.status, sb.status} == {"ok", "not_converged"}:
        # borderline: equivalent descriptions take slightly different Newton paths; the verdict only counts if it persists
        # with a generous iteration limit (same policy as C07 / C15)
        big = dict({k_: v_ for k_, v_ in opts.items() if not k_.startswith("max_iter")}, iter=1000)
        na, nb = build(ra), build(rb)
        sa, sb = solve(na, **big), solve(nb, **big)
        labels_extra = {"verdict_rechecked_with_iter_1000"}
        if {sa.status, sb.status} == {"ok", "not_converged"} and "tol_m" in opts:
            # with the tight tolerances of this check (1e-10) one description can end in a limit cycle at the 1e-7 bar level
            # (seen: constant damping oscillates, automatic damping converges) that does not exist at the default
            # tolerances (1e-5). If both descriptions converge there, the tight-tolerance verdict is no statement.
            loose = {k_: v_ for k_, v_ in opts.items() if not k_.startswith("tol_")}
            if solve(build(ra), **loose).ok and solve(build(rb), **loose).ok:
                return Outcome(discard="limit_cycle_below_default_tolerance_in_one_description")
    labels |= labels_extra
    if sa.status != sb.status:
        if has_lift:
            return Outcome(discard="verdict_mismatch_with_pump_or_compressor")
        if opts.get("friction_model", "nikuradse") != "nikuradse" and "crash" not in (sa.status, sb.status):
            # Colebrook-White / Swamee-Jain are not defined for laminar flow; whether Newton passes through that region
            # depends on round-off, so a differing verdict says nothing about the rewrite
            return Outcome(discard="verdict_mismatch_turbulent_friction_model")
        if "crash" in (sa.status, sb.status):
            from ..recipe import exc_sig
            ex = sa.exc if sa.status == "crash" else sb.exc
            f.append(Finding("crash", "C09.crash.%s.%s" % (kind, exc_sig(ex)), {"exc": repr(ex)[:200]}))
        else:
            f.append(Finding("verdict", "C09.verdict." + kind, {"a": sa.status, "b": sb.status, "exc": [repr(sa.exc)[:150], repr(sb.exc)[:150]]}))
        return Outcome(findings=f, labels=labels, nontrivial=True, sample=_sample(case))
    if not sa.ok:
        return Outcome(discard=sa.status)
    from ..compare import laminar_under_turbulent_model
    if laminar_under_turbulent_model(opts, na, nb):
        return Outcome(discard="laminar_branch_under_turbulent_only_friction_model")
    if has_lift:
        for n_ in (na, nb):
            for t in ("pump", "compressor"):
                if t in n_ and len(n_[t]) and (n_["res_" + t].mdot_from_kg_per_s.fillna(1.0) <= 1e-9).any():
                    return Outcome(discard="nonunique_zero_or_reverse_flow_pump")
    scale = max(flow_scale(na), flow_scale(nb), 1e-12)
    thermal = opts["mode"] != "hydraulics"
    cf = 4.0 * max(cond_flow_tol(na), cond_flow_tol(nb))
    diffs = []
    c = spec["shift"]
    for t in sorted(k for k in na.keys() if k.startswith("res_") and hasattr(na[k], "columns")):
        if t in spec["skip_tables"] or not len(na[t]):
            continue
        tbl = t[4:]
        dfa = na[t]
        if tbl == "junction":
            dfb = nb[t].loc[dfa.index]
        else:
            rem = spec["removed"].get(tbl, set())
            keep = [i for i in dfa.index if i not in rem]
            gone = [i for i in dfa.index if i in rem]
            if gone and dfa.loc[gone].notnull().values.any():
                diffs.append({"table": t, "column": "<removed element had results>", "index": gone[0]})
            dfa = dfa.loc[keep]
            if not keep:
                continue
            if t not in nb or not set(keep) <= set(nb[t].index):
                diffs.append({"table": t, "column": "<index>", "kind": "rows missing in rewritten net"})
                continue
            dfb = nb[t].loc[keep]
        if tbl in spec["reversed"]:
            dfb = reversed_frame(dfb, spec["reversed"][tbl], gas=na.fluid.is_gas)
            if not thermal and "t_outlet_k" in dfb.columns:
                # without thermal calculation t_outlet_k is the fluid temperature of the declared to-junction
                rows = [i for i in dfb.index if i in spec["reversed"][tbl]]
                dfb.loc[rows, "t_outlet_k"] = dfa.loc[rows, "t_outlet_k"]
        if c:
            dfb = dfb.copy()
            for col in ("p_bar", "p_from_bar", "p_to_bar"):
                if col in dfb.columns:
                    dfb[col] = dfb[col] - c
        skip = ()
        if tbl == "pipe" and spec["split"]:
            # the original multi-section pipe vs the chain: end pressures, flow, outlet temperature
            rows = []
            for pidx, parts in spec["split"].items():
                first, last = nb[t].loc[parts[0]], nb[t].loc[parts[-1]]
                row = first.copy()
                for col in ("p_to_bar", "t_to_k", "t_outlet_k", "mdot_to_kg_per_s", "v_to_m_per_s", "normfactor_to"):
                    if col in row.index:
                        row[col] = last[col]
                if thermal and first["mdot_from_kg_per_s"] < -2e-11:
                    row["t_outlet_k"] = first["t_outlet_k"]     # flow against the declared direction leaves through part 1
                for col in ("lambda", "reynolds", "v_mean_m_per_s", "dp_friction_loss_bar", "vdot_m3_per_s", "vdot_norm_m3_per_s"):
                    if col in row.index:
                        vals = nb[t].loc[parts, col]
                        row[col] = vals.sum(min_count=1) if col == "dp_friction_loss_bar" else vals.mean()
                row.name = pidx
                rows.append(row)
            dfb = dfb.copy()
            for row in rows:
                dfb.loc[row.name] = row
        if kind == "merge" and tbl == "pipe":
            skip = ()
        # gas: the mean pressure is replaced by the from-pressure when both ends agree to 1e-5 -> mean velocities /
        # norm factors of (reversed) branches move by up to ~1e-5
        diffs += compare_frames(t, dfa, dfb, scale, skip_cols=skip, mfloor=3e-9 + cf, drel=3e-5 if na.fluid.is_gas else 1e-6)
    asym = False
    if kind == "reverse" and opts["mode"] in ("hydraulics", "sequential") and diffs:
        # known finding: next to an external grid whose t_k differs from the junction's tfluid_k the start temperatures
        # of the hydraulic stage depend on the declared direction (from-temperature read live, outlet temperature copied
        # before the grid overwrote the junction temperature)
        tj = {j["index"]: j["tfluid_k"] for j in ra["junction"]}
        hot = {e["junction"] for e in ra["elements"] if e["table"] == "ext_grid" and e.get("in_service", True)
               and e.get("type", "auto") in ("pt", "t", "auto") and e.get("t_k") is not None and abs(e["t_k"] - tj[e["junction"]]) > 1e-9}
        for e in ra["elements"]:
            if e["index"] in spec["reversed"].get(e["table"], ()):
                ends = (e["junction"], e["element"]) if e["table"] == "valve" else (e["from_junction"], e["to_junction"])
                if hot & set(ends):
                    asym = True
    for d in diffs[:3]:
        sig = "C09.reverse.start_temperature_asymmetry_at_ext_grid" if asym else "C09.%s.%s.%s" % (kind, d["table"], d["column"])
        f.append(Finding("equivalence", sig, d))
    # non-triviality
    flowing = False
    for tbl, idx in spec["touched"]:
        if tbl in ("junction", "all"):
            flowing = True
        elif "res_" + tbl in na and idx in na["res_" + tbl].index and "mdot_from_kg_per_s" in na["res_" + tbl].columns:
            m = na["res_" + tbl].at[idx, "mdot_from_kg_per_s"]
            flowing = flowing or (not np.isnan(m) and abs(m) > 1e-6)
    nontriv = (flowing or kind == "remove") and len(ra["junction"]) >= 3
    return Outcome(findings=f, labels=labels, nontrivial=nontriv, sample=_sample(case))


def _sample(case):
    return {"kind": case["kind"], "recipe": abbreviate(case["recipe"]), "options": case["options"], "c": case["c"]}


def run_shard(coll, tier, seed, shard, nshards, known):
    run_given(case_strategy(tier), evaluate, EX[tier], derive_seed("C09", seed, shard), coll, known)


def replay(case):
    return evaluate(case)

"""C17 - restructuring tools preserve referential integrity and physics.

History test with reference transforms: a generated list of toolbox operations is applied to one
net; before every operation the element tables are copied, a small reference implementation of
the operation (written from the docstrings) is applied to the copy, and the real result must equal
it row for row. After relabelling operations the pipeflow results must equal the previous ones
up to the relabelling; select_subnet of the complete supplied region must reproduce its results.
"""
from __future__ import annotations

import copy

import numpy as np
import pandas as pd
from hypothesis import strategies as st

from .. import gen, genheat
from ..compare import compare_nets
from ..recipe import abbreviate, build, solve
from ..runner import Finding, Outcome, derive_seed, run_given

RULE = ("cases = (recipe with junction-pipe valves, pressure controllers with remote controlled junction, circulation pumps / "
        "consumers, labels chosen so that pipe and junction index values coincide; list of 2..7 operations from reindex_junctions, "
        "reindex_pipes, reindex_elements, create_continuous_junction_index, create_continuous_element(s)_index, drop_junctions, "
        "drop_pipes, drop_elements_at_junctions, fuse_junctions, select_subnet with generated lookups / junction sets). "
        "Non-trivial = >= 2 operations applied, one of them a relabelling of a table that is referenced by another table, or a "
        "drop / fuse / select that removes something. Distinct = distinct case hash.")
ASSUMPTIONS = ["reference columns: every from/to/return/flow/controlled junction column -> junction; valve.element -> junction for "
               "et='ju' and -> pipe for et='pi'",
               "dropping a pipe (directly or through its junctions) drops the junction-pipe valves attached to it (referential integrity)",
               "a lookup handed to a reindex function is injective and does not map onto labels of rows it leaves unmapped"]
EX = {"quick": 25, "thorough": 1000}

JCOLS = {"sink": ["junction"], "source": ["junction"], "mass_storage": ["junction"], "ext_grid": ["junction"],
         "pipe": ["from_junction", "to_junction"], "pump": ["from_junction", "to_junction"], "compressor": ["from_junction", "to_junction"],
         "heat_exchanger": ["from_junction", "to_junction"], "heat_consumer": ["from_junction", "to_junction"],
         "flow_control": ["from_junction", "to_junction"], "press_control": ["from_junction", "to_junction", "controlled_junction"],
         "circ_pump_pressure": ["return_junction", "flow_junction"], "circ_pump_mass": ["return_junction", "flow_junction"],
         "valve": ["junction"]}
RELABEL_OPS = ("reindex_junctions", "reindex_pipes", "reindex_elements", "continuous_junction", "continuous_elements", "continuous_element")


@st.composite
def case_strategy(draw, tier):
    if draw(st.integers(0, 3)) == 0:
        rec = draw(genheat.heat_net(max_n=3 if tier == "quick" else 5, labels=False))
        from ..recipe import TIGHT_HEAT
        opts = dict(TIGHT_HEAT, mode="sequential")
    else:
        rec, opts = draw(gen.hyd_case(max_n=7 if tier == "quick" else 12, tight=True, labels=False, sectors=False,
                                      allow_lift=False, pi_every=3))   # pump / compressor lifts make solutions non-unique (see C08)
        opts["mode"] = "hydraulics"
        opts["friction_model"] = "nikuradse"
        # make sure a junction-pipe valve and a remote pressure controller occur often
        pipes = [e for e in rec["elements"] if e["table"] == "pipe"]
        if pipes and draw(st.booleans()) and not any(e["table"] == "valve" and e["et"] == "pi" for e in rec["elements"]):
            p = pipes[draw(st.integers(0, len(pipes) - 1))]
            vi = max([e["index"] for e in rec["elements"] if e["table"] == "valve"] + [-1]) + 1
            rec["elements"].append({"table": "valve", "index": vi, "junction": p["from_junction"], "element": p["index"], "et": "pi",
                                    "inner_diameter_mm": p["inner_diameter_mm"], "opened": True, "loss_coefficient": 1.0})
    rec.pop("row_order", None)
    ops = []
    n = draw(st.integers(2, 7))
    for _ in range(n):
        kind = draw(st.sampled_from(["reindex_junctions", "reindex_junctions", "reindex_pipes", "reindex_pipes", "reindex_elements", "continuous_junction",
                                     "continuous_elements", "continuous_element", "drop_junctions", "drop_pipes",
                                     "drop_elements_at_junctions", "fuse_junctions", "select_subnet"]))
        ops.append({"op": kind, "seed": draw(st.lists(st.integers(0, 60), min_size=12, max_size=12)),
                    "partial": draw(st.booleans()), "start": draw(st.sampled_from([0, 0, 5, 100])),
                    "table": draw(st.sampled_from(["pipe", "valve", "sink", "ext_grid", "press_control", "heat_consumer", "junction"]))})
    return {"recipe": rec, "options": opts, "ops": ops}


# ---------------------------------------------------------------------------------------------
def tables_of(net):
    out = {}
    for k in net.keys():
        if isinstance(net[k], pd.DataFrame) and not k.startswith("_") and not k.startswith("res_") and k != "controller":
            out[k] = net[k].copy(deep=True)
    return out


def valve_masks(tbls):
    v = tbls.get("valve")
    if v is None or not len(v):
        return None, None
    return (v.et == "ju").values, (v.et == "pi").values


def ref_map_junctions(tbls, lk):
    f = lambda x: lk.get(int(x), int(x))
    for t, cols in JCOLS.items():
        if t in tbls and len(tbls[t]):
            for c in cols:
                tbls[t][c] = [f(x) for x in tbls[t][c].values]
    ju, pi = valve_masks(tbls)
    if ju is not None:
        el = tbls["valve"]["element"].values.copy()
        tbls["valve"]["element"] = [f(x) if m else int(x) for x, m in zip(el, ju)]


def ref_reindex(tbls, element, lookup):
    if element not in tbls:
        return
    lk = {int(k): int(v) for k, v in lookup.items() if k in tbls[element].index}
    for i in tbls[element].index:
        lk.setdefault(int(i), int(i))
    tbls[element].index = [lk[int(i)] for i in tbls[element].index]
    g = element + "_geodata"
    if g in tbls and len(tbls[g]):
        tbls[g].index = [lk.get(int(i), int(i)) for i in tbls[g].index]
    if element == "junction":
        ref_map_junctions(tbls, lk)
    elif element == "pipe":
        ju, pi = valve_masks(tbls)
        if pi is not None:
            el = tbls["valve"]["element"].values.copy()
            tbls["valve"]["element"] = [lk.get(int(x), int(x)) if m else int(x) for x, m in zip(el, pi)]
    return lk


def rows_referencing(tbls, t, J):
    df = tbls[t]
    m = np.zeros(len(df), dtype=bool)
    for c in JCOLS.get(t, []):
        m |= df[c].isin(J).values
    if t == "valve":
        ju, pi = valve_masks(tbls)
        m |= ju & df["element"].isin(J).values
    return m


def ref_drop_pipes(tbls, P):
    P = set(int(p) for p in P)
    if "pipe" in tbls:
        tbls["pipe"] = tbls["pipe"].loc[[i for i in tbls["pipe"].index if i not in P]]
    if "pipe_geodata" in tbls:
        tbls["pipe_geodata"] = tbls["pipe_geodata"].loc[[i for i in tbls["pipe_geodata"].index if i not in P]]
    ju, pi = valve_masks(tbls)
    if pi is not None:
        keep = ~(pi & tbls["valve"]["element"].isin(P).values)
        tbls["valve"] = tbls["valve"].loc[keep]


def ref_drop_elements_at(tbls, J):
    J = set(int(j) for j in J)
    dropped_pipes = set()
    for t in list(JCOLS):
        if t in tbls and len(tbls[t]):
            m = rows_referencing(tbls, t, J)
            if t == "pipe":
                dropped_pipes |= set(tbls[t].index[m])
            else:
                tbls[t] = tbls[t].loc[~m]
    ref_drop_pipes(tbls, dropped_pipes)


def ref_drop_junctions(tbls, J, drop_elements=True):
    J = set(int(j) for j in J)
    tbls["junction"] = tbls["junction"].loc[[i for i in tbls["junction"].index if i not in J]]
    if "junction_geodata" in tbls:
        tbls["junction_geodata"] = tbls["junction_geodata"].loc[[i for i in tbls["junction_geodata"].index if i not in J]]
    if drop_elements:
        ref_drop_elements_at(tbls, J)


def ref_fuse(tbls, j1, j2s):
    lk = {int(j): int(j1) for j in j2s}
    ref_map_junctions(tbls, lk)
    ref_drop_junctions(tbls, set(j2s) - {j1}, drop_elements=False)


def ref_select(tbls, S):
    S = set(int(s) for s in S)
    out = {}
    out["junction"] = tbls["junction"].loc[[i for i in tbls["junction"].index if i in S]]
    kept_pipes = set()
    for t in JCOLS:
        if t not in tbls:
            continue
        df = tbls[t]
        m = np.ones(len(df), dtype=bool)
        for c in JCOLS[t]:
            m &= df[c].isin(S).values
        if t == "valve" and len(df):
            ju, pi = valve_masks(tbls)
            m &= np.where(ju, df["element"].isin(S).values, True)
        out[t] = df.loc[m]
        if t == "pipe":
            kept_pipes = set(out[t].index)
    if "valve" in out and len(out["valve"]):
        pi = (out["valve"].et == "pi").values
        out["valve"] = out["valve"].loc[~(pi & ~out["valve"]["element"].isin(kept_pipes).values)]
    return out


def same_val(a, b):
    if (a is None or (isinstance(a, float) and a != a)) and (b is None or (isinstance(b, float) and b != b)):
        return True
    try:
        if isinstance(a, (bool, np.bool_)) or isinstance(b, (bool, np.bool_)):
            return bool(a) == bool(b)
        return float(a) == float(b)
    except (TypeError, ValueError):
        return a == b


def diff_tables(exp, act, only=None):
    for t in sorted(exp):
        if only and t not in only:
            continue
        e = exp[t]
        if t not in act:
            if len(e):
                return "table %s missing" % t
            continue
        a = act[t]
        if sorted(e.index) != sorted(a.index):
            return "table %s: index set differs: expected %s, got %s" % (t, sorted(e.index)[:12], sorted(a.index)[:12])
        if not a.index.is_unique:
            return "table %s: duplicate index" % t
        a2 = a.loc[e.index]
        for c in e.columns:
            if c == "old_index":
                continue
            if c not in a2.columns:
                return "table %s: column %s missing" % (t, c)
            for i, (x, y) in enumerate(zip(e[c].values, a2[c].values)):
                if not same_val(x, y):
                    return "table %s row %s column %s: expected %r, got %r" % (t, e.index[i], c, x, y)
    return None


def integrity(tbls):
    J = set(tbls["junction"].index) if "junction" in tbls else set()
    for t, cols in JCOLS.items():
        if t in tbls and len(tbls[t]):
            for c in cols:
                bad = [int(x) for x in tbls[t][c].values if int(x) not in J]
                if bad:
                    return "%s.%s references missing junction(s) %s" % (t, c, bad[:4])
    if "valve" in tbls and len(tbls["valve"]):
        P = set(tbls["pipe"].index) if "pipe" in tbls else set()
        for idx, r in tbls["valve"].iterrows():
            if r.et == "ju" and int(r.element) not in J:
                return "valve %s references missing junction %s" % (idx, r.element)
            if r.et == "pi" and int(r.element) not in P:
                return "valve %s references missing pipe %s" % (idx, r.element)
            if r.et == "pi" and "pipe" in tbls and int(r.element) in P:
                p = tbls["pipe"].loc[int(r.element)]
                if int(r.junction) not in (int(p.from_junction), int(p.to_junction)):
                    return "valve %s sits on junction %s which is not an end of pipe %s" % (idx, r.junction, r.element)
    return None


def pick(seq, seeds, k, n=None):
    seq = list(seq)
    if not seq:
        return []
    n = n if n is not None else 1 + seeds[k] % min(3, len(seq))
    out = []
    for i in range(n):
        x = seq[seeds[(k + i + 1) % len(seeds)] % len(seq)]
        if x not in out:
            out.append(x)
    return out


def make_lookup(index, seeds, partial):
    idx = [int(i) for i in index]
    if not idx:
        return {}
    src = idx if not partial else pick(idx, seeds, 3, n=max(1, len(idx) // 2))
    base = max(idx) + 1 + seeds[0]
    mode = min(seeds[1] % 6, 3)
    if mode == 3 and not partial:
        # labels that are multiples of the table length (plus a small offset): the classic collision pattern of composite
        # keys built as a * len(table) + b
        n = len(idx)
        return {s: n * ((k + seeds[2]) % n) + seeds[3] % 2 for k, s in enumerate(idx)}
    if mode == 0 or mode == 3:      # fresh labels above everything
        return {s: base + 3 * k + (seeds[2 + k % 8] % 3) for k, s in enumerate(src)}
    if mode == 1 and not partial:   # permutation of the existing labels
        perm = idx[seeds[2] % len(idx):] + idx[:seeds[2] % len(idx)]
        return dict(zip(idx, perm))
    hi = max(max(idx) + 1, 100000)     # never onto a label that an unmapped row keeps (documented precondition)
    return {s: hi + 7 * k + seeds[2] for k, s in enumerate(src)}


def evaluate(case):
    import pandapipes as pp
    from pandapipes import toolbox as tb
    rec, opts = case["recipe"], case["options"]
    net = build(rec)
    f = []
    applied = []
    labels = set()
    r0 = solve(net, **opts)
    have_res = r0.ok
    nontriv = False
    for step, op in enumerate(case["ops"]):
        if f:
            break
        kind, seeds = op["op"], op["seed"]
        before = tables_of(net)
        exp = {k: v.copy(deep=True) for k, v in before.items()}
        prev = copy.deepcopy(net) if have_res else None
        jmap, tmaps = None, {}
        J = list(net.junction.index)
        try:
            if kind == "reindex_junctions":
                lk = make_lookup(J, seeds, op["partial"])
                jmap = ref_reindex(exp, "junction", dict(lk))
                tb.reindex_junctions(net, dict(lk))
            elif kind == "reindex_pipes":
                if "pipe" not in net or not len(net.pipe):
                    continue
                lk = make_lookup(net.pipe.index, seeds, op["partial"])
                tmaps["pipe"] = ref_reindex(exp, "pipe", dict(lk))
                tb.reindex_pipes(net, dict(lk))
            elif kind == "reindex_elements":
                t = op["table"]
                if t not in net or not len(net[t]):
                    continue
                lk = make_lookup(net[t].index, seeds, op["partial"])
                m_ = ref_reindex(exp, t, dict(lk))
                if t == "junction":
                    jmap = m_
                else:
                    tmaps[t] = m_
                tb.reindex_elements(net, t, dict(lk))
            elif kind == "continuous_junction":
                lk = dict(zip(sorted(J), range(op["start"], op["start"] + len(J))))
                jmap = ref_reindex(exp, "junction", dict(lk))
                tb.create_continuous_junction_index(net, start=op["start"])
            elif kind == "continuous_element":
                t = op["table"]
                if t not in net or not len(net[t]):
                    continue
                lk = dict(zip(sorted(net[t].index), range(op["start"], op["start"] + len(net[t]))))
                m_ = ref_reindex(exp, t, dict(lk))
                if t == "junction":
                    jmap = m_
                else:
                    tmaps[t] = m_
                tb.create_continuous_element_index(net, t, start=op["start"])
            elif kind == "continuous_elements":
                for t in sorted(k for k in exp if k in JCOLS or k == "junction"):
                    if len(exp[t]):
                        lk = dict(zip(sorted(exp[t].index), range(op["start"], op["start"] + len(exp[t]))))
                        m_ = ref_reindex(exp, t, dict(lk))
                        if t == "junction":
                            jmap = m_
                        else:
                            tmaps[t] = m_
                tb.create_continuous_elements_index(net, start=op["start"])
            elif kind == "drop_junctions":
                sel = pick(J[1:] or J, seeds, 0)
                ref_drop_junctions(exp, sel)
                tb.drop_junctions(net, sel)
            elif kind == "drop_pipes":
                if "pipe" not in net or not len(net.pipe):
                    continue
                sel = pick(net.pipe.index, seeds, 0)
                ref_drop_pipes(exp, sel)
                tb.drop_pipes(net, sel)
            elif kind == "drop_elements_at_junctions":
                sel = pick(J, seeds, 0)
                ref_drop_elements_at(exp, sel)
                tb.drop_elements_at_junctions(net, sel)
            elif kind == "fuse_junctions":
                if len(J) < 2:
                    continue
                sel = pick(J, seeds, 0, n=2 + seeds[5] % 2)
                if len(sel) < 2:
                    continue
                ref_fuse(exp, sel[0], sel[1:])
                tb.fuse_junctions(net, sel[0], sel[1:])
            elif kind == "select_subnet":
                if have_res and seeds[0] % 2 == 0:
                    S = [int(j) for j in net.res_junction.index[net.res_junction.p_bar.notnull()]]
                    labels.add("select_supplied_region")
                else:
                    S = pick(J, seeds, 0, n=max(1, len(J) - 1 - seeds[3] % 2))
                exp = ref_select(exp, S)
                sub = tb.select_subnet(net, S)
                act = tables_of(sub)
                d = diff_tables(exp, act, only=set(JCOLS) | {"junction"})
                if d:
                    f.append(Finding("select_subnet", "C17.select_subnet.tables", {"step": step, "junctions": S, "diff": d}))
                    break
                d = integrity(act)
                if d:
                    f.append(Finding("integrity", "C17.integrity.select_subnet", {"step": step, "problem": d}))
                    break
                if "select_supplied_region" in labels and have_res and seeds[0] % 2 == 0:
                    r2 = solve(sub, **opts)
                    if r2.status != "ok":
                        f.append(Finding("select_subnet", "C17.select_subnet.status", {"status": r2.status, "exc": repr(r2.exc)[:200]}))
                    else:
                        full = copy.deepcopy(net)
                        for t in [k for k in sub.keys() if k.startswith("res_") and hasattr(sub[k], "columns") and len(sub[k])]:
                            full[t] = net[t].loc[sub[t].index]
                        for t in [k for k in net.keys() if k.startswith("res_") and (k not in sub or not len(sub[k]))]:
                            full[t] = net[t].iloc[0:0]
                        diffs = compare_nets(full, sub)
                        for dd in diffs[:1]:
                            f.append(Finding("select_subnet", "C17.select_subnet.results.%s.%s" % (dd["table"], dd["column"]), dd))
                applied.append(kind)
                nontriv = nontriv or len(S) < len(J) or True
                continue
        except Exception as e:
            from ..recipe import exc_sig
            f.append(Finding("raises", "C17.raises.%s.%s" % (kind, exc_sig(e)), {"step": step, "op": kind, "exc": repr(e)[:300],
                                                                                 "applied_before": list(applied)}))
            break
        applied.append(kind)
        act = tables_of(net)
        d = diff_tables(exp, act)
        if d:
            f.append(Finding("tables", "C17.tables." + kind, {"step": step, "diff": d, "applied_before": applied[:-1]}))
            break
        d = integrity(act)
        if d:
            f.append(Finding("integrity", "C17.integrity." + kind, {"step": step, "problem": d}))
            break
        if kind in RELABEL_OPS:
            referenced = (jmap is not None and any(k != v for k, v in jmap.items())) or \
                ("pipe" in tmaps and any(k != v for k, v in tmaps["pipe"].items()) and "valve" in act and (act["valve"].et == "pi").any())
            nontriv = nontriv or referenced
            if have_res:
                r = solve(net, **opts)
                if r.status != "ok":
                    f.append(Finding("physics", "C17.physics.status." + kind, {"status": r.status, "exc": repr(r.exc)[:200]}))
                    break
                imaps = dict(tmaps)
                if jmap is not None:
                    imaps["junction"] = jmap
                diffs = compare_nets(prev, net, index_maps=imaps)
                for dd in diffs[:1]:
                    f.append(Finding("physics", "C17.physics.%s.%s.%s" % (kind, dd["table"], dd["column"]), dd))
        else:
            nontriv = nontriv or any(len(before[t]) != len(act.get(t, [])) for t in before)
            rr = solve(net, **opts)
            have_res = rr.ok
    labels |= {"op:" + k for k in applied}
    if any(e["table"] == "valve" and e["et"] == "pi" for e in rec["elements"]):
        labels.add("has_pi_valve")
    return Outcome(findings=f, labels=labels, nontrivial=nontriv and len(applied) >= 2,
                   sample={"recipe": abbreviate(rec), "ops": [o["op"] for o in case["ops"]], "applied": applied})


def run_shard(coll, tier, seed, shard, nshards, known):
    run_given(case_strategy(tier), evaluate, EX[tier], derive_seed("C17", seed, shard), coll, known, shrink_s=40)


def replay(case):
    return evaluate(case)

"""C04 - exactly the supplied part of the network is calculated, unaffected by the rest.

(1) reference reachability model (vp/refmodel.py) vs the NaN pattern of all result tables;
(2) differential: the recipe with every unsupplied / out-of-service element deleted gives the same
    results for the remaining elements; (3) no supplied junction => PipeflowNotConverged.
Enumerated: all 2^k flag patterns on fixed topologies; generated: hyd / heat nets with outage patterns.
"""
from __future__ import annotations

import copy
import itertools

import numpy as np
from hypothesis import strategies as st

from .. import gen, genheat
from ..compare import compare_nets
from ..recipe import BRANCH_TABLES, FROM_TO, NODE_ELEMENT_TABLES, abbreviate, build, exc_sig, solve
from ..refmodel import reach, thermal_reach
from ..runner import Finding, Outcome, derive_seed, run_cases, run_given

RULE = ("(a) enumerated: every one of the 2^k patterns of the status flags (in_service / opened / control_active of branches, "
        "junctions, feeders) on four fixed topologies (gas with ju+pi valve, flow controller, directed pressure controller; "
        "heating loop with consumer, exchanger + flow controller; water with two ext grids, pump; gas with junction-pipe valves at "
        "both ends of a pipe and in parallel, by-pass valve, duty + stand-by pressure controller, two ext grids on one junction); "
        "quick k=8, thorough k=10..12; "
        "(b) generated hydraulic and heating nets with sparse/dense outage patterns and 1-3 feeders. Non-trivial = the pattern "
        "leaves >= 1 supplied and >= 1 unsupplied junction, or an inactive row precedes an active row in some table. "
        "Distinct = distinct recipe hash.")
ASSUMPTIONS = ["a junction-pipe valve that is closed leaves the pipe end open: the pipe keeps results if its other end is supplied",
               "an out-of-service junction reached through in-service branches is calculated (the statement is about reachability)",
               "junction t_k of unsupplied junctions is the ambient temperature by design and not asserted; the pressure is",
               "thermal pattern: branch temperatures exist iff the branch is hydraulically calculated and reachable from an "
               "in-service temperature feed over calculated branches"]
EXHAUSTIVE_NOTE = "all 2^k status-flag patterns of the four fixed topologies (k = 8 quick; 10-12 thorough)"
EX = {"quick": 35, "thorough": 1500}

T_COLS = ("t_from_k", "t_to_k", "t_outlet_k")


# ---------------------------------------------------------------------------------------------
def topo_gas():
    J = [{"index": i, "pn_bar": 1.0, "tfluid_k": 293.15, "height_m": 0.0, "in_service": True} for i in range(6)]
    E = [
        {"table": "ext_grid", "index": 0, "junction": 0, "p_bar": 1.0, "t_k": 293.15, "type": "pt", "in_service": True},
        {"table": "pipe", "index": 0, "from_junction": 0, "to_junction": 1, "length_km": 0.3, "inner_diameter_mm": 100.0,
         "k_mm": 0.1, "loss_coefficient": 0.0, "sections": 2, "in_service": True},
        {"table": "valve", "index": 0, "junction": 1, "element": 2, "et": "ju", "inner_diameter_mm": 100.0, "opened": True,
         "loss_coefficient": 1.0},
        {"table": "pipe", "index": 1, "from_junction": 2, "to_junction": 3, "length_km": 0.2, "inner_diameter_mm": 80.0,
         "k_mm": 0.1, "loss_coefficient": 0.0, "sections": 1, "in_service": True},
        {"table": "valve", "index": 1, "junction": 2, "element": 1, "et": "pi", "inner_diameter_mm": 80.0, "opened": True,
         "loss_coefficient": 0.5},
        {"table": "flow_control", "index": 0, "from_junction": 1, "to_junction": 3, "controlled_mdot_kg_per_s": 0.004,
         "control_active": True, "in_service": True},
        {"table": "press_control", "index": 0, "from_junction": 3, "to_junction": 4, "controlled_junction": 4,
         "controlled_p_bar": 0.8, "control_active": True, "loss_coefficient": 0.0, "in_service": True,
         "check_controllability": False},
        {"table": "pipe", "index": 2, "from_junction": 4, "to_junction": 5, "length_km": 0.1, "inner_diameter_mm": 80.0,
         "k_mm": 0.1, "loss_coefficient": 0.0, "sections": 1, "in_service": True},
        {"table": "sink", "index": 0, "junction": 5, "mdot_kg_per_s": 0.01, "scaling": 1.0, "in_service": True},
        {"table": "sink", "index": 1, "junction": 2, "mdot_kg_per_s": 0.005, "scaling": 1.0, "in_service": True},
        {"table": "source", "index": 0, "junction": 3, "mdot_kg_per_s": 0.002, "scaling": 1.0, "in_service": True},
    ]
    flags = [("pipe", 0, "in_service"), ("valve", 0, "opened"), ("pipe", 1, "in_service"), ("valve", 1, "opened"),
             ("flow_control", 0, "control_active"), ("press_control", 0, "in_service"), ("junction", 2, "in_service"),
             ("flow_control", 0, "in_service"), ("pipe", 2, "in_service"), ("ext_grid", 0, "in_service"),
             ("press_control", 0, "control_active"), ("junction", 4, "in_service")]
    return {"fluid": "lgas", "sector": "all", "junction": J, "elements": E}, flags, {"mode": "hydraulics", "iter": 40}


def topo_heat():
    J = [{"index": i, "pn_bar": 5.0, "tfluid_k": 320.0, "height_m": 0.0, "in_service": True} for i in range(7)]

    def pipe(i, a, b):
        return {"table": "pipe", "index": i, "from_junction": a, "to_junction": b, "length_km": 0.2, "inner_diameter_mm": 80.0,
                "k_mm": 0.1, "loss_coefficient": 0.0, "sections": 2 if i == 0 else 1, "u_w_per_m2k": 5.0, "text_k": 283.0,
                "in_service": True}
    E = [
        {"table": "circ_pump_pressure", "index": 0, "return_junction": 1, "flow_junction": 0, "p_flow_bar": 5.0,
         "plift_bar": 1.5, "t_flow_k": 360.0, "type": "pt", "in_service": True},
        pipe(0, 0, 2), pipe(1, 3, 1), pipe(2, 2, 4), pipe(3, 5, 3),
        {"table": "heat_consumer", "index": 0, "from_junction": 2, "to_junction": 3, "controlled_mdot_kg_per_s": 0.3,
         "qext_w": 20000.0, "in_service": True},
        {"table": "flow_control", "index": 0, "from_junction": 4, "to_junction": 6, "controlled_mdot_kg_per_s": 0.2,
         "control_active": True, "in_service": True},
        {"table": "heat_exchanger", "index": 0, "from_junction": 6, "to_junction": 5, "qext_w": 10000.0,
         "inner_diameter_mm": 50.0, "loss_coefficient": 50.0, "in_service": True},
        {"table": "heat_consumer", "index": 1, "from_junction": 4, "to_junction": 5, "qext_w": 5000.0, "deltat_k": 20.0,
         "in_service": True},
    ]
    flags = [("pipe", 0, "in_service"), ("pipe", 1, "in_service"), ("pipe", 2, "in_service"), ("pipe", 3, "in_service"),
             ("heat_consumer", 0, "in_service"), ("flow_control", 0, "control_active"), ("heat_exchanger", 0, "in_service"),
             ("heat_consumer", 1, "in_service"), ("flow_control", 0, "in_service"), ("junction", 4, "in_service"),
             ("circ_pump_pressure", 0, "in_service")]
    return {"fluid": "water", "sector": "all", "junction": J, "elements": E}, flags, {"mode": "sequential", "iter": 60}


def topo_water():
    J = [{"index": i, "pn_bar": 5.0, "tfluid_k": 300.0, "height_m": [0.0, 4.0, 8.0, 2.0, 10.0][i], "in_service": True}
         for i in range(5)]

    def pipe(i, a, b):
        return {"table": "pipe", "index": i, "from_junction": a, "to_junction": b, "length_km": 0.3, "inner_diameter_mm": 100.0,
                "k_mm": 0.1, "loss_coefficient": 1.0, "sections": 1, "in_service": True}
    E = [
        {"table": "ext_grid", "index": 0, "junction": 0, "p_bar": 5.0, "t_k": 300.0, "type": "pt", "in_service": True},
        {"table": "ext_grid", "index": 1, "junction": 3, "p_bar": 4.5, "t_k": 300.0, "type": "p", "in_service": True},
        pipe(0, 0, 1), pipe(1, 2, 1), pipe(2, 2, 3),
        {"table": "valve", "index": 0, "junction": 1, "element": 3, "et": "ju", "inner_diameter_mm": 80.0, "opened": True,
         "loss_coefficient": 2.0},
        {"table": "pump", "index": 0, "from_junction": 2, "to_junction": 4, "std_type": "P1", "in_service": True},
        {"table": "sink", "index": 0, "junction": 4, "mdot_kg_per_s": 1.0, "scaling": 1.0, "in_service": True},
        {"table": "mass_storage", "index": 0, "junction": 1, "mdot_kg_per_s": 0.5, "scaling": 1.0, "in_service": True},
    ]
    flags = [("ext_grid", 0, "in_service"), ("ext_grid", 1, "in_service"), ("pipe", 0, "in_service"), ("pipe", 1, "in_service"),
             ("pipe", 2, "in_service"), ("valve", 0, "opened"), ("pump", 0, "in_service"), ("junction", 1, "in_service"),
             ("junction", 3, "in_service"), ("sink", 0, "in_service")]
    return {"fluid": "water", "sector": "all", "junction": J, "elements": E}, flags, {"mode": "hydraulics", "iter": 40}


def topo_valves():
    """junction-pipe valves at both ends of one pipe and two in parallel at one end, a by-pass junction-junction valve, a duty and
    an (always out-of-service) stand-by pressure controller for the same junction, two external grids on one junction."""
    J = [{"index": i, "pn_bar": 2.0, "tfluid_k": 293.15, "height_m": 0.0, "in_service": True} for i in range(6)]

    def pipe(i, a, b):
        return {"table": "pipe", "index": i, "from_junction": a, "to_junction": b, "length_km": 0.2, "inner_diameter_mm": 100.0,
                "k_mm": 0.1, "loss_coefficient": 0.0, "sections": 2 if i == 1 else 1, "in_service": True}

    def pv(i, j, p):
        return {"table": "valve", "index": i, "junction": j, "element": p, "et": "pi", "inner_diameter_mm": 100.0, "opened": True,
                "loss_coefficient": 0.5}

    def pc(i, p, svc):
        return {"table": "press_control", "index": i, "from_junction": 3, "to_junction": 4, "controlled_junction": 4,
                "controlled_p_bar": p, "control_active": True, "loss_coefficient": 0.0, "in_service": svc,
                "check_controllability": False}
    E = [
        {"table": "ext_grid", "index": 0, "junction": 0, "p_bar": 2.0, "t_k": 293.15, "type": "pt", "in_service": True},
        {"table": "ext_grid", "index": 1, "junction": 0, "p_bar": 2.2, "t_k": 293.15, "type": "p", "in_service": True},
        pipe(0, 0, 1), pipe(1, 1, 2), pv(0, 1, 1), pv(1, 2, 1), pv(2, 2, 1), pipe(2, 2, 3),
        {"table": "valve", "index": 3, "junction": 1, "element": 3, "et": "ju", "inner_diameter_mm": 50.0, "opened": True,
         "loss_coefficient": 5.0},
        pc(0, 1.5, True), pc(1, 1.1, False), pipe(3, 4, 5),
        {"table": "sink", "index": 0, "junction": 2, "mdot_kg_per_s": 0.01, "scaling": 1.0, "in_service": True},
        {"table": "sink", "index": 1, "junction": 3, "mdot_kg_per_s": 0.01, "scaling": 1.0, "in_service": True},
        {"table": "sink", "index": 2, "junction": 5, "mdot_kg_per_s": 0.02, "scaling": 1.0, "in_service": True},
    ]
    flags = [("valve", 0, "opened"), ("valve", 1, "opened"), ("valve", 2, "opened"), ("valve", 3, "opened"),
             ("press_control", 0, "in_service"), ("pipe", 1, "in_service"), ("ext_grid", 1, "in_service"), ("junction", 2, "in_service"),
             ("pipe", 2, "in_service"), ("ext_grid", 0, "in_service"), ("press_control", 0, "control_active")]
    return {"fluid": "lgas", "sector": "all", "junction": J, "elements": E}, flags, {"mode": "hydraulics", "iter": 40}


TOPOS = {"gas": topo_gas, "heat": topo_heat, "water": topo_water, "valves": topo_valves}
K = {"quick": {"gas": 8, "heat": 8, "water": 8, "valves": 8}, "thorough": {"gas": 12, "heat": 11, "water": 10, "valves": 11}}


def apply_pattern(name, bits):
    rec, flags, opts = TOPOS[name]()
    for (tbl, idx, col), b in zip(flags, bits):
        if tbl == "junction":
            [j for j in rec["junction"] if j["index"] == idx][0][col] = bool(b)
        else:
            [e for e in rec["elements"] if e["table"] == tbl and e["index"] == idx][0][col] = bool(b)
    return rec, opts


# ---------------------------------------------------------------------------------------------
def reduced_recipe(rec, hyd):
    """delete every unsupplied junction and every element without results."""
    out = {"fluid": rec["fluid"], "sector": rec.get("sector", "all"), "junction": [], "elements": []}
    keepj = hyd["junctions"]
    out["junction"] = [dict(j, in_service=True) for j in rec["junction"] if j["index"] in keepj]
    kept_pipes = {e["index"] for e in rec["elements"] if e["table"] == "pipe" and hyd["branch"][("pipe", e["index"])]}
    for e in rec["elements"]:
        t = e["table"]
        if t in FROM_TO:
            if t == "valve" and e["et"] == "pi":
                # a valve on a kept pipe is kept as it is (a closed one leaves the pipe end open)
                if e["element"] in kept_pipes and e["junction"] in keepj:
                    out["elements"].append(copy.deepcopy(e))
                continue
            if hyd["branch"][(t, e["index"])]:
                a, b = FROM_TO[t]
                if e[a] in keepj and e[b] in keepj:
                    out["elements"].append(copy.deepcopy(e))
                else:
                    return None     # pipe end cut off by a closed pi valve at an unsupplied junction: no equivalent recipe
        else:
            if e.get("in_service", True) and e["junction"] in keepj:
                out["elements"].append(copy.deepcopy(e))
    if rec.get("row_order"):
        out["row_order"] = rec["row_order"]
    return out


def all_on(rec):
    out = copy.deepcopy(rec)
    for j in out["junction"]:
        j["in_service"] = True
    for e in out["elements"]:
        if "in_service" in e:
            e["in_service"] = True
        if "opened" in e:
            e["opened"] = True
    return out


def evaluate(case):
    if case.get("topology"):
        rec, opts = apply_pattern(case["topology"], case["bits"])
        opts = dict(opts, use_numba=bool(sum(case["bits"]) % 2))
    else:
        rec, opts = case["recipe"], case["options"]
    net = build(rec)
    history = case.get("history") if not case.get("topology") else ("all_on_then_switched" if sum(case["bits"]) % 3 == 0 else None)
    if history == "all_on_then_switched":
        # the way outages happen in practice: the net was calculated with everything in service, the user looked at the
        # results (post-processed a column), then elements were switched and the same net object is calculated again.
        # What is no longer supplied must report NaN then, not the numbers of the earlier calculation.
        on = build(all_on(rec))
        if solve(on, **opts).ok:
            from ..recipe import reload_net
            reload_net(on, "touch")
            for t in [k for k in net.keys() if hasattr(net[k], "columns") and not k.startswith(("res_", "_"))]:
                on[t] = net[t]
            net = on
        else:
            history = None
    r = solve(net, **opts)
    hyd = reach(rec)
    f = []
    labels = {"topo:" + case["topology"] if case.get("topology") else "generated", "mode:" + opts["mode"],
              "history:" + str(history)}
    alljs = {j["index"] for j in rec["junction"]}
    if not hyd["junctions"]:
        labels.add("no_supply")
        if r.status != "not_converged":
            f.append(Finding("no_supply", "C04.no_supply." + r.status, {"status": r.status, "exc": repr(r.exc)[:200]}))
        return Outcome(findings=f, labels=labels, nontrivial=True, sample=_sample(case, rec, opts))
    if r.status == "crash":
        f.append(Finding("crash", "C04.crash." + exc_sig(r.exc), {"exc": repr(r.exc)[:300]}))
        return Outcome(findings=f, labels=labels | {"crash"}, nontrivial=True, sample=_sample(case, rec, opts))
    if not r.ok:
        return Outcome(discard=r.status)
    # ---- (1) NaN pattern
    pj = net.res_junction.p_bar
    got = {int(j) for j in pj.index[~pj.isnull()]}
    if got != hyd["junctions"]:
        f.append(Finding("pattern", "C04.pattern.junction", {"extra_results": sorted(got - hyd["junctions"]),
                                                             "missing_results": sorted(hyd["junctions"] - got)}))
    thermal = opts["mode"] in ("sequential", "bidirectional")
    th = thermal_reach(rec, hyd) if thermal else None
    for t in BRANCH_TABLES:
        if t not in net or not len(net[t]):
            continue
        res = net["res_" + t]
        tcols = [c for c in res.columns if c in T_COLS]
        hcols = [c for c in res.columns if c not in T_COLS and c not in ("deltat_k", "qext_w", "compr_power_mw")]
        xcols = [c for c in res.columns if c in ("deltat_k", "qext_w", "compr_power_mw", "deltap_bar")]
        for idx in net[t].index:
            exp = hyd["branch"][(t, int(idx))]
            row = res.loc[idx]
            has = ~row[hcols].isnull()
            if exp and not has.all():
                f.append(Finding("pattern", "C04.pattern.branch_missing." + t, {t: int(idx), "nan_columns": [c for c in hcols if not has[c]]}))
            if not exp and has.any():
                f.append(Finding("pattern", "C04.pattern.branch_extra." + t, {t: int(idx), "columns": [c for c in hcols if has[c]]}))
            if not exp:
                ex = [c for c in xcols if not np.isnan(row[c])]
                if ex:
                    f.append(Finding("pattern", "C04.pattern.inactive_extra_column.%s.%s" % (t, ex[0]), {t: int(idx), "columns": ex,
                                                                                                       "values": [float(row[c]) for c in ex]}))
            if thermal and tcols:
                expt = th["branch"][(t, int(idx))]
                hast = ~row[tcols].isnull()
                if expt and not hast.all():
                    f.append(Finding("pattern", "C04.pattern.thermal_missing." + t, {t: int(idx)}))
                if not expt and hast.any():
                    f.append(Finding("pattern", "C04.pattern.thermal_extra." + t, {t: int(idx), "hydraulic": bool(exp)}))
    for t in ("sink", "source", "mass_storage"):
        if t in net and len(net[t]):
            for idx in net[t].index:
                exp = bool(net[t].at[idx, "in_service"]) and int(net[t].at[idx, "junction"]) in hyd["junctions"]
                has = not np.isnan(net["res_" + t].at[idx, "mdot_kg_per_s"])
                if exp != has:
                    f.append(Finding("pattern", "C04.pattern.load." + t, {t: int(idx), "expected_result": exp}))
    if "ext_grid" in net and len(net.ext_grid):
        for idx in net.ext_grid.index:
            typ = net.ext_grid.at[idx, "type"]
            exp = bool(net.ext_grid.at[idx, "in_service"]) and typ in ("p", "pt") and int(net.ext_grid.at[idx, "junction"]) in hyd["junctions"]
            has = not np.isnan(net.res_ext_grid.at[idx, "mdot_kg_per_s"])
            if exp != has:
                f.append(Finding("pattern", "C04.pattern.ext_grid." + ("extra" if has else "missing"),
                                 {"ext_grid": int(idx), "type": typ, "in_service": bool(net.ext_grid.at[idx, "in_service"]),
                                  "junction_supplied": int(net.ext_grid.at[idx, "junction"]) in hyd["junctions"]}))
    # ---- (2) differential against the recipe without the rest
    partial = hyd["junctions"] != alljs
    dropped = partial or any(not v for v in hyd["branch"].values()) or any(
        not e.get("in_service", True) for e in rec["elements"] if e["table"] in NODE_ELEMENT_TABLES)
    if dropped and not f:
        red = reduced_recipe(rec, hyd)
        if red is not None and red["junction"]:
            net2 = build(red)
            r2 = solve(net2, **opts)
            stagnant_lift = False
            for n_ in (net, net2):
                for t_ in ("pump", "compressor"):
                    if t_ in n_ and len(n_[t_]) and (n_["res_" + t_].mdot_from_kg_per_s.dropna() <= 1e-9).any():
                        stagnant_lift = True
            if stagnant_lift and (r2.status != "ok" or True):
                # the lift of a pump / compressor is discontinuous at zero flow (curve value for mdot >= 0, none for reverse
                # flow): a stagnant one has no unique solution, so the two calculations may legitimately differ (see the
                # known findings of C07 / C08). No statement.
                labels.add("differential_skipped:stagnant_pump_or_compressor")
            elif r2.status != "ok":
                f.append(Finding("differential", "C04.differential.status", {"reduced_status": r2.status, "exc": repr(r2.exc)[:200]}))
            else:
                # compare rows that exist in the reduced net (NaN rows of the full net were deleted)
                sub = copy.copy(net)
                diffs = []
                for t in [k for k in net2.keys() if k.startswith("res_") and hasattr(net2[k], "columns") and len(net2[k])]:
                    a = net[t].loc[net2[t].index]
                    from ..compare import compare_frames, flow_scale
                    skip = ()
                    if not ("tol_m" in opts):
                        kw = dict(ptol=1e-4, ttol=1e-2, mrel=1e-3, drel=1e-2, mabs=1e-4)
                    else:
                        kw = {}
                    diffs += compare_frames(t, a, net2[t], max(flow_scale(net), 1e-12), **kw)
                for d in diffs[:2]:
                    f.append(Finding("differential", "C04.differential.%s.%s" % (d["table"], d["column"]), d))
            labels.add("differential_run")
    # ---- classification
    inactive_before_active = False
    tabs = {}
    for e in rec["elements"]:
        tabs.setdefault(e["table"], []).append(e)
    for t, els in tabs.items():
        states = [hyd["branch"].get((t, e["index"]), e.get("in_service", True)) for e in els]
        if any((not a) and any(states[i + 1:]) for i, a in enumerate(states)):
            inactive_before_active = True
    if partial:
        labels.add("partial_supply")
    if inactive_before_active:
        labels.add("inactive_before_active")
    return Outcome(findings=f, labels=labels, nontrivial=partial or inactive_before_active, sample=_sample(case, rec, opts))


def _sample(case, rec, opts):
    if case.get("topology"):
        return {"topology": case["topology"], "bits": case["bits"]}
    return {"recipe": abbreviate(rec), "options": opts}


@st.composite
def gen_case(draw, tier):
    if draw(st.integers(0, 2)) == 0:
        rec = draw(genheat.heat_net(max_n=4 if tier == "quick" else 7, allow_oos=True))
        # heavier outage pattern
        for e in rec["elements"]:
            if draw(st.integers(0, 7)) == 0:
                e["in_service"] = False
        opts = draw(genheat.heat_options(tight=True))
    else:
        rec, opts = draw(gen.hyd_case(max_n=9 if tier == "quick" else 20, tight=True))
        opts["mode"] = "hydraulics"
    return {"recipe": rec, "options": opts, "history": draw(st.sampled_from([None, None, "all_on_then_switched"]))}


def run_shard(coll, tier, seed, shard, nshards, known):
    pats = []
    for name in sorted(TOPOS):
        k = K[tier][name]
        for n, bits in enumerate(itertools.product([1, 0], repeat=k)):
            pats.append({"topology": name, "bits": list(bits)})
    mine = pats[shard::nshards]
    run_cases(mine, evaluate, coll, known)
    coll.bump("enumerated_patterns", len(mine))
    run_given(gen_case(tier), evaluate, EX[tier], derive_seed("C04", seed, shard), coll, known)


def replay(case):
    return evaluate(case)

"""C16 - element creation keeps the net referentially intact, atomic and as documented.

Model-based history test: a generated list of create_* calls (valid ones and calls with ONE injected
fault) is executed on one net; a python-dict model of the expected rows runs alongside. Oracles:
accepted call => exactly the requested rows with documented values / defaults, unique index, table
dtypes, resolvable references; rejected call => deep snapshot of the net unchanged; bulk == sequence
of singles; standard type == parameters of that type.
"""
from __future__ import annotations

import copy
import inspect
import math
import re

import numpy as np
import pandas as pd
from hypothesis import strategies as st

from ..runner import Finding, Outcome, derive_seed, run_given
from .c12 import diff_snapshot, snapshot

RULE = ("cases = (sector, fluid, list of 4..14 create calls) drawn from an argument grammar of the 17 single and 11 bulk "
        "element-creating functions; each call is valid (with random subsets of optional arguments omitted) or carries one "
        "injected fault (non-existing junction / pipe / standard type, duplicate index, wrong array length, NaN in a bool "
        "column, contradictory heat-consumer specification, negative storage, malformed geodata). Also per case: one bulk call "
        "replayed as single calls on a twin net, one standard-type pipe / pump replayed from the type's parameters. "
        "Non-trivial = the history has a rejected call after an accepted one, or contains a bulk/single or std-type pair. "
        "Distinct = distinct case hash.")
ASSUMPTIONS = ["documented default = the value after 'default' in the ':type arg:' line of the function's docstring",
               "create_pressure_control(check_controllability=True) returning None without creating anything is a documented "
               "soft refusal (the repository's tests rely on it)",
               "None / NaN / '' in object columns (name, std_type) are null-equivalent when bulk and single calls are compared"]
NSHARDS = {"quick": 16, "thorough": 16}
EX = {"quick": 40, "thorough": 2500}

J = "JREF"          # reference to an existing junction
# spec: table, required args, optional args (value pools), column overrides
F = lambda *v: list(v)
SPEC = {
    "create_junction": dict(table="junction", req={"pn_bar": F(1.0, 5.5, 16.0), "tfluid_k": F(283.15, 320.0)},
                            opt={"height_m": F(0.0, 12.5), "name": F("a", None), "in_service": F(True, False), "type": F("junction", "x")}),
    "create_sink": dict(table="sink", req={"junction": J, "mdot_kg_per_s": F(0.0, 0.3, 2.0)},
                        opt={"scaling": F(1.0, 0.5), "name": F("s", None), "in_service": F(True, False), "type": F("sink", "t2")}),
    "create_source": dict(table="source", req={"junction": J, "mdot_kg_per_s": F(0.1, 1.0)},
                          opt={"scaling": F(1.0, 2.0), "name": F("s", None), "in_service": F(True, False), "type": F("source")}),
    "create_mass_storage": dict(table="mass_storage", req={"junction": J, "mdot_kg_per_s": F(-0.2, 0.4)},
                                opt={"init_m_stored_kg": F(0.0, 5.0), "min_m_stored_kg": F(0.0, 1.0), "max_m_stored_kg": F(10.0, 100.0),
                                     "scaling": F(1.0, 0.5), "name": F("m", None), "in_service": F(True, False), "type": F("mass_storage")}),
    "create_ext_grid": dict(table="ext_grid", req={"junction": J}, opt={"p_bar": F(3.0, 8.0), "t_k": F(300.0, 350.0), "type": F("p", "pt", "t", "auto"),
                                                                         "name": F("eg", None), "in_service": F(True, False)}),
    "create_heat_exchanger": dict(table="heat_exchanger", req={"from_junction": J, "to_junction": J, "qext_w": F(0.0, 2e4, -3e3),
                                                               "inner_diameter_mm": F(50.0, 100.0)},
                                  opt={"loss_coefficient": F(0.0, 2.0), "name": F("hx", None), "in_service": F(True, False), "type": F("heat_exchanger")}),
    "create_pipe": dict(table="pipe", req={"from_junction": J, "to_junction": J, "std_type": "PIPE_STD", "length_km": F(0.1, 2.5)},
                        opt={"loss_coefficient": F(0.0, 1.5), "sections": F(1, 3), "text_k": F(280.0, 300.0), "name": F("p", None),
                             "in_service": F(True, False), "type": F("pipe")},
                        # individually given values replace the type's values for THIS pipe only (accepted with a DeprecationWarning)
                        override={"k_mm": F(0.9, 0.05), "u_w_per_m2k": F(7.0, 1.0)}),
    "create_pipe_from_parameters": dict(table="pipe", req={"from_junction": J, "to_junction": J, "length_km": F(0.1, 2.5),
                                                           "inner_diameter_mm": F(40.0, 100.0)},
                                        opt={"outer_diameter_mm": F(110.0, 120.0), "k_mm": F(0.2, 0.05), "loss_coefficient": F(0.0, 1.5),
                                             "sections": F(1, 4), "u_w_per_m2k": F(0.0, 5.0), "text_k": F(280.0, 300.0),
                                             "name": F("p", None), "in_service": F(True, False), "type": F("pipe")}),
    "create_valve": dict(table="valve", req={"junction": J, "element": J, "et": F("ju"), "inner_diameter_mm": F(50.0, 80.0)},
                         opt={"opened": F(True, False), "loss_coefficient": F(0.0, 3.0), "name": F("v", None), "type": F("valve")}),
    "create_pump": dict(table="pump", req={"from_junction": J, "to_junction": J, "std_type": "PUMP_STD"},
                        opt={"name": F("pu", None), "in_service": F(True, False), "type": F("pump")}),
    "create_circ_pump_const_pressure": dict(table="circ_pump_pressure", req={"return_junction": J, "flow_junction": J, "p_flow_bar": F(5.0, 6.0),
                                                                             "plift_bar": F(1.0, 2.0)},
                                            opt={"t_flow_k": F(350.0, 370.0), "type": F("auto", "p", "pt"), "name": F("c", None), "in_service": F(True, False)}),
    "create_circ_pump_const_mass_flow": dict(table="circ_pump_mass", req={"return_junction": J, "flow_junction": J, "p_flow_bar": F(5.0, 6.0),
                                                                          "mdot_flow_kg_per_s": F(0.5, 1.5)},
                                             opt={"t_flow_k": F(350.0, 370.0), "type": F("auto", "p", "pt"), "name": F("c", None), "in_service": F(True, False)}),
    "create_compressor": dict(table="compressor", req={"from_junction": J, "to_junction": J, "pressure_ratio": F(1.2, 2.0)},
                              opt={"name": F("co", None), "in_service": F(True, False)}),
    "create_pressure_control": dict(table="press_control", req={"from_junction": J, "to_junction": J, "controlled_junction": J, "controlled_p_bar": F(2.0, 4.0)},
                                    opt={"control_active": F(True, False), "loss_coefficient": F(0.0, 1.0), "name": F("pc", None),
                                         "in_service": F(True, False), "type": F("pressure_control")}, extra={"check_controllability": False}),
    "create_flow_control": dict(table="flow_control", req={"from_junction": J, "to_junction": J, "controlled_mdot_kg_per_s": F(0.1, 0.7)},
                                opt={"control_active": F(True, False), "name": F("fc", None), "in_service": F(True, False), "type": F("fc")}),
    "create_heat_consumer": dict(table="heat_consumer", req={"from_junction": J, "to_junction": J},
                                 opt={"name": F("hc", None), "in_service": F(True, False), "type": F("heat_consumer")},
                                 pairs=[("qext_w", "controlled_mdot_kg_per_s"), ("controlled_mdot_kg_per_s", "deltat_k"),
                                        ("controlled_mdot_kg_per_s", "treturn_k"), ("qext_w", "deltat_k"), ("qext_w", "treturn_k")],
                                 pair_vals={"qext_w": F(5e3, 2e4), "controlled_mdot_kg_per_s": F(0.2, 0.6), "deltat_k": F(15.0, 25.0), "treturn_k": F(310.0, 320.0)}),
}
BULK = {   # bulk function -> (single function, {bulk arg: single arg})
    "create_junctions": ("create_junction", {}),
    "create_sinks": ("create_sink", {"junctions": "junction"}),
    "create_sources": ("create_source", {"junctions": "junction"}),
    "create_ext_grids": ("create_ext_grid", {"junctions": "junction"}),
    "create_pipes": ("create_pipe", {"from_junctions": "from_junction", "to_junctions": "to_junction"}),
    "create_pipes_from_parameters": ("create_pipe_from_parameters", {"from_junctions": "from_junction", "to_junctions": "to_junction"}),
    "create_valves": ("create_valve", {"junctions": "junction", "elements": "element"}),
    "create_pressure_controls": ("create_pressure_control", {"from_junctions": "from_junction", "to_junctions": "to_junction",
                                                             "controlled_junctions": "controlled_junction"}),
    "create_flow_controls": ("create_flow_control", {"from_junctions": "from_junction", "to_junctions": "to_junction"}),
    "create_heat_exchangers": ("create_heat_exchanger", {"from_junctions": "from_junction", "to_junctions": "to_junction"}),
    "create_heat_consumers": ("create_heat_consumer", {"from_junctions": "from_junction", "to_junctions": "to_junction"}),
}
PIPE_STDS = ["80_GGG", "100_GGG", "150_ST<16", "315_PE_80_SDR_17", "110_PE_100_SDR_11"]
FAULTS = ["bad_junction", "dup_index", "bad_std_type", "bad_pipe", "hc_contradiction", "hc_single", "neg_storage", "geodata"]
BULK_FAULTS = ["bad_junction", "dup_index", "wrong_length", "nan_bool", "bad_std_type", "geodata"]


@st.composite
def call_strategy(draw, fn_names):
    fn = draw(st.sampled_from(fn_names))
    sp = SPEC[fn]
    kw = {}
    for a, pool in sp["req"].items():
        if pool == J:
            kw[a] = ("J", draw(st.integers(0, 30)))
        elif pool == "PIPE_STD":
            kw[a] = ("STD", draw(st.integers(0, 400)))
        elif pool == "PUMP_STD":
            kw[a] = draw(st.sampled_from(["P1", "P2", "P3"]))
        else:
            kw[a] = draw(st.sampled_from(pool))
    for a, pool in sp["opt"].items():
        if draw(st.booleans()):
            kw[a] = draw(st.sampled_from(pool))
    if "pairs" in sp:
        pa, pb = draw(st.sampled_from(sp["pairs"]))
        kw[pa] = draw(st.sampled_from(sp["pair_vals"][pa]))
        kw[pb] = draw(st.sampled_from(sp["pair_vals"][pb]))
    for a, pool in sp.get("override", {}).items():
        if draw(st.integers(0, 2)) == 0:
            kw[a] = draw(st.sampled_from(pool))
    if draw(st.integers(0, 3)) == 0:
        kw["index"] = ("NEW", draw(st.integers(0, 40)))
    if draw(st.integers(0, 5)) == 0:
        kw["my_extra_column"] = draw(st.sampled_from([1.5, 2.5]))
    fault = None
    if draw(st.integers(0, 3)) == 0:
        fault = draw(st.sampled_from(FAULTS))
    return {"fn": fn, "kw": kw, "fault": fault, "pos": draw(st.integers(0, 5))}


@st.composite
def bulk_strategy(draw):
    bfn = draw(st.sampled_from(sorted(BULK)))
    sfn, amap = BULK[bfn]
    sp = SPEC[sfn]
    n = draw(st.integers(1, 4))
    rows = []
    opt_present = {a: draw(st.booleans()) for a in sp["opt"]}
    pair = draw(st.sampled_from(sp["pairs"])) if "pairs" in sp else None
    std = draw(st.integers(0, 400))
    for _ in range(n):
        kw = {}
        for a, pool in sp["req"].items():
            if pool == J:
                kw[a] = ("J", draw(st.integers(0, 30)))
            elif pool == "PIPE_STD":
                kw[a] = ("STD", std)
            else:
                kw[a] = draw(st.sampled_from(pool))
        for a, pool in sp["opt"].items():
            if opt_present[a]:
                kw[a] = draw(st.sampled_from(pool))
        if pair:
            for p_ in pair:
                kw[p_] = draw(st.sampled_from(sp["pair_vals"][p_]))
        rows.append(kw)
    fault = draw(st.sampled_from(BULK_FAULTS)) if draw(st.integers(0, 3)) == 0 else None
    return {"fn": bfn, "rows": rows, "fault": fault, "pos": draw(st.integers(0, 5)), "scalar_opts": draw(st.booleans()),
            "with_index": draw(st.integers(0, 3)) == 0,
            # how per-element values are handed over: the bulk functions take "iterables" - lists, arrays and pandas Series
            # (a Series is used by position unless it is labelled with exactly the new indices)
            "container": draw(st.sampled_from(["list", "list", "array", "series_range", "series_new", "series_shift",
                                               "series_foreign"]))}


@st.composite
def case_strategy(draw, tier):
    sector = draw(st.sampled_from(["all", "all", "gas", "water", "heat", "None"]))
    fluid = draw(st.sampled_from(["water", "lgas"])) if sector in ("all", "None") else {"gas": "lgas", "water": "water", "heat": "water"}[sector]
    names = sorted(SPEC)
    n = draw(st.integers(4, 14))
    ops = []
    for _ in range(n):
        k = draw(st.integers(0, 9))
        if k < 2:
            ops.append(draw(call_strategy(["create_junction"])))
        elif k < 8:
            ops.append(draw(call_strategy(names)))
        else:
            ops.append(dict(draw(bulk_strategy()), bulk=True))
    return {"sector": sector, "fluid": fluid, "n0": draw(st.integers(0, 3)), "ops": ops,
            "std_pair": draw(st.sampled_from(PIPE_STDS)), "pump_pair": draw(st.sampled_from(["P1", "P2", "P3"]))}


# ---------------------------------------------------------------------------------------------
DOC_DEFAULT = re.compile(r":type\s+(\w+):\s*[^\n]*?default\s+([^\s,\n]+)")


def documented_defaults(fn):
    out = {}
    for name, val in DOC_DEFAULT.findall(fn.__doc__ or ""):
        v = val.strip().rstrip(".").strip('"').strip("'")
        if v in ("None", "none"):
            out[name] = None
        elif v in ("True", "False"):
            out[name] = v == "True"
        elif v in ("np.inf", "inf"):
            out[name] = float("inf")
        else:
            try:
                out[name] = float(v)
            except ValueError:
                out[name] = v
    return out


def null(v):
    return v is None or (isinstance(v, float) and math.isnan(v)) or v is pd.NA or (isinstance(v, str) and v == "")


def same(a, b):
    if null(a) and null(b):
        return True
    if isinstance(a, (bool, np.bool_)) or isinstance(b, (bool, np.bool_)):
        return bool(a) == bool(b)
    if isinstance(a, (int, float, np.integer, np.floating)) and isinstance(b, (int, float, np.integer, np.floating)):
        return float(a) == float(b) or (math.isinf(float(a)) and math.isinf(float(b)) and float(a) * float(b) > 0)
    return a == b


def resolve(kw, net, fault, pos, fn):
    """turn symbolic references into concrete values; apply the fault. returns (kwargs, expect_reject)"""
    import pandapipes as pp
    js = list(net.junction.index) if "junction" in net else []
    out = {}
    reject = False
    jref_args = [a for a, v in kw.items() if isinstance(v, tuple) and v[0] == "J"]
    if jref_args and not js:
        reject = True
    for a, v in kw.items():
        if isinstance(v, tuple) and v[0] == "J":
            out[a] = int(js[v[1] % len(js)]) if js else 777
        elif isinstance(v, tuple) and v[0] == "STD":
            keys = sorted(net.std_types.get("pipe", {})) if "std_types" in net else []
            out[a] = keys[v[1] % len(keys)] if keys else "no_type_available"
            reject = reject or not keys
        elif isinstance(v, tuple) and v[0] == "NEW":
            tbl = SPEC[fn]["table"]
            used = set(net[tbl].index) if tbl in net else set()
            x = v[1]
            while x in used:
                x += 1
            out[a] = x
        else:
            out[a] = v
    # type / value consistency of feeders (documented: type 'p' needs a pressure, 't' a temperature)
    if fn in ("create_ext_grid", "create_circ_pump_const_pressure", "create_circ_pump_const_mass_flow"):
        pcol, tcol = ("p_bar", "t_k") if fn == "create_ext_grid" else ("p_flow_bar", "t_flow_k")
        typ = out.get("type", "auto")
        if "t" in typ and out.get(tcol) is None:
            out[tcol] = 333.0
        if "p" in typ and out.get(pcol) is None:
            out[pcol] = 4.5
        if typ == "auto" and out.get(pcol) is None and out.get(tcol) is None:
            out[pcol] = 4.5
    tbl = SPEC[fn]["table"]
    if fault == "bad_junction" and jref_args:
        a = jref_args[pos % len(jref_args)]
        out[a] = (max(js) if js else 0) + 1000 + pos
        reject = True
    elif fault == "dup_index" and tbl in net and len(net[tbl]):
        out["index"] = int(net[tbl].index[pos % len(net[tbl])])
        reject = True
    elif fault == "bad_std_type" and "std_type" in out:
        out["std_type"] = "no_such_type_%d" % pos
        reject = True
    elif fault == "bad_pipe" and fn == "create_valve":
        out["et"] = "pi"
        out["element"] = 4242
        reject = True
    elif fault == "hc_contradiction" and fn == "create_heat_consumer":
        out.update(qext_w=1e4, controlled_mdot_kg_per_s=None, deltat_k=10.0, treturn_k=320.0)
        reject = True
    elif fault == "hc_single" and fn == "create_heat_consumer":
        for p_ in ("qext_w", "controlled_mdot_kg_per_s", "deltat_k", "treturn_k"):
            out.pop(p_, None)
        out["qext_w"] = 1e4
        reject = True
    elif fault == "neg_storage" and fn == "create_mass_storage":
        out["min_m_stored_kg"] = -1.0
        reject = True
    elif fault == "geodata" and fn in ("create_junction",):
        out["geodata"] = (1.0, 2.0, 3.0)
        reject = True
    out.update(SPEC[fn].get("extra", {}))
    return out, reject


def check_row(net, fn, tbl, idx, kw, findings, ctx):
    import pandapipes as pp
    f_ = getattr(pp, fn)
    row = net[tbl].loc[idx]
    sig = inspect.signature(f_) if not fn.startswith("create_pipe_from") and fn not in ("create_valve", "create_heat_exchanger") else None
    doc = documented_defaults(f_)
    comp_cols = [c for c, _ in _component_input(tbl)]
    exp = {}
    for c in comp_cols:
        if c in kw:
            exp[c] = kw[c]
        elif c in doc:
            exp[c] = doc[c]
    # derived columns
    if fn in ("create_ext_grid", "create_circ_pump_const_pressure", "create_circ_pump_const_mass_flow") and kw.get("type", "auto") == "auto":
        pcol, tcol = ("p_bar", "t_k") if fn == "create_ext_grid" else ("p_flow_bar", "t_flow_k")
        p_, t_ = kw.get(pcol), kw.get(tcol)
        exp["type"] = ("p" if p_ is not None else "") + ("t" if t_ is not None else "")
    if fn == "create_mass_storage":
        # documented: the initial content is limited to [min_m_stored_kg, max_m_stored_kg]
        lo = kw.get("min_m_stored_kg", 0.0)
        hi = kw.get("max_m_stored_kg", float("inf"))
        exp["init_m_stored_kg"] = min(max(kw.get("init_m_stored_kg", 0.0), lo), hi)
    if fn == "create_pipe":
        std = net.std_types["pipe"][kw["std_type"]]
        exp["inner_diameter_mm"] = std["inner_diameter_mm"]
        exp["k_mm"] = kw.get("k_mm", std.get("k_mm", 0.2))
        exp.pop("outer_diameter_mm", None)
        if "u_w_per_m2k" not in kw:
            exp.pop("u_w_per_m2k", None)
    for c, v in exp.items():
        if c not in row.index:
            findings.append(Finding("row", "C16.row.missing_column.%s.%s" % (fn, c), dict(ctx, column=c)))
        elif not same(row[c], v):
            src = "given" if c in kw else "documented_default"
            findings.append(Finding("row", "C16.row.%s.%s.%s" % (src, fn, c), dict(ctx, column=c, got=repr(row[c]), expected=repr(v))))
    if "my_extra_column" in kw and not same(row.get("my_extra_column"), kw["my_extra_column"]):
        findings.append(Finding("row", "C16.row.kwargs_column." + fn, dict(ctx)))


_CI = {}


def _component_input(tbl):
    if tbl not in _CI:
        import pandapipes.component_models as cm
        for name in dir(cm):
            c = getattr(cm, name)
            try:
                if isinstance(c, type) and c.table_name() == tbl:
                    _CI[tbl] = c.get_component_input()
                    break
            except Exception:
                continue
    return _CI[tbl]


def check_dtypes(net, tbl, findings, ctx):
    want = dict(_component_input(tbl))
    for c, dt in want.items():
        if c in net[tbl].columns and len(net[tbl]):
            got = net[tbl][c].dtype
            if np.dtype(dt) != got:
                findings.append(Finding("dtype", "C16.dtype.%s.%s" % (tbl, c), dict(ctx, got=str(got), declared=str(np.dtype(dt)))))
    if not net[tbl].index.is_unique:
        findings.append(Finding("index", "C16.index.not_unique." + tbl, dict(ctx)))


def check_refs(net, findings, ctx):
    js = set(net.junction.index) if "junction" in net else set()
    for tbl, cols in (("sink", ["junction"]), ("source", ["junction"]), ("mass_storage", ["junction"]), ("ext_grid", ["junction"]),
                      ("pipe", ["from_junction", "to_junction"]), ("pump", ["from_junction", "to_junction"]),
                      ("compressor", ["from_junction", "to_junction"]), ("heat_exchanger", ["from_junction", "to_junction"]),
                      ("heat_consumer", ["from_junction", "to_junction"]), ("flow_control", ["from_junction", "to_junction"]),
                      ("press_control", ["from_junction", "to_junction", "controlled_junction"]),
                      ("circ_pump_pressure", ["return_junction", "flow_junction"]), ("circ_pump_mass", ["return_junction", "flow_junction"])):
        if tbl in net and len(net[tbl]):
            for c in cols:
                bad = [int(v) for v in net[tbl][c].values if int(v) not in js]
                if bad:
                    findings.append(Finding("reference", "C16.reference.%s.%s" % (tbl, c), dict(ctx, dangling=bad[:3])))
    if "valve" in net and len(net.valve):
        for idx, r in net.valve.iterrows():
            ok = int(r.junction) in js and ((r.et == "ju" and int(r.element) in js) or (r.et == "pi" and "pipe" in net and int(r.element) in net.pipe.index))
            if not ok:
                findings.append(Finding("reference", "C16.reference.valve", dict(ctx, valve=int(idx))))
    for tbl in ("pipe", "pump"):
        if tbl in net and len(net[tbl]) and "std_type" in net[tbl].columns:
            for v in net[tbl].std_type.values:
                if not null(v) and v not in net.std_types[tbl]:
                    findings.append(Finding("reference", "C16.reference.std_type." + tbl, dict(ctx, std_type=v)))


def new_net(case):
    import pandapipes as pp
    from pandapipes.pandapipes_net import Sector
    net = pp.create_empty_network(fluid=case["fluid"], sector=Sector(case["sector"]))
    for i in range(case["n0"]):
        pp.create_junction(net, 5.0, 300.0)
    return net


def std_types_changed(before, after):
    """types known before the call must be unchanged afterwards (values included)."""
    b, a = before.get("std_types"), after.get("std_types")
    if b is None or a is None:
        return None
    for key, val in b[1].items():
        if key not in a[1]:
            return "standard type %s/%s disappeared" % key
        if a[1][key] != val:
            return "standard type %s/%s changed: %s -> %s" % (key[0], key[1], val, a[1][key])
    return None


def tables_changed(before, after):
    """diff of two snapshots that tolerates newly registered EMPTY tables (reported separately)."""
    b2 = dict(before)
    a2 = dict(after)
    new_empty = []
    for k in list(a2):
        if k not in b2:
            v = a2[k]
            if v[0] == "df" and len(v[1]) == 0:
                new_empty.append(k)
                a2.pop(k)
    if "component_list" in a2 and "component_list" in b2 and a2["component_list"] != b2["component_list"]:
        if a2["component_list"][1][:len(b2["component_list"][1])] == b2["component_list"][1] and new_empty:
            a2["component_list"] = b2["component_list"]
    return diff_snapshot(b2, a2), new_empty


def run_single(net, op, findings, step, history):
    import pandapipes as pp
    fn = op["fn"]
    tbl = SPEC[fn]["table"]
    kw, expect_reject = resolve(op["kw"], net, op["fault"], op["pos"], fn)
    before = snapshot(net)
    n_before = len(net[tbl]) if tbl in net else 0
    ctx = {"step": step, "fn": fn, "kwargs": {k: repr(v) for k, v in kw.items()}, "fault": op["fault"] if expect_reject else None}
    try:
        ret = getattr(pp, fn)(net, **copy.deepcopy(kw))
        raised = None
    except Exception as e:
        ret, raised = None, e
    if raised is not None:
        d, new_empty = tables_changed(before, snapshot(net))
        if d:
            findings.append(Finding("atomic", "C16.atomic.%s.%s" % (fn, op["fault"] if expect_reject else "valid_call_raised"),
                                    dict(ctx, change=d, exc=repr(raised)[:200])))
        elif new_empty:
            findings.append(Finding("atomic", "C16.atomic.new_empty_table", dict(ctx, tables=new_empty, exc=repr(raised)[:120])))
        if not expect_reject:
            findings.append(Finding("accept", "C16.valid_call_raised." + fn, dict(ctx, exc=repr(raised)[:300])))
        history.append("rejected")
        return
    if expect_reject:
        findings.append(Finding("reject", "C16.accepted_invalid.%s.%s" % (fn, op["fault"]), dict(ctx, returned=repr(ret))))
        history.append("accepted_invalid")
        return
    history.append("accepted")
    if tbl not in net or len(net[tbl]) != n_before + 1:
        findings.append(Finding("row", "C16.row.count." + fn, dict(ctx, before=n_before, after=len(net[tbl]) if tbl in net else None)))
        return
    if ret not in net[tbl].index:
        findings.append(Finding("row", "C16.row.returned_index." + fn, dict(ctx, returned=repr(ret))))
        return
    if "index" in kw and ret != kw["index"]:
        findings.append(Finding("row", "C16.row.forced_index." + fn, dict(ctx, returned=repr(ret))))
    check_row(net, fn, tbl, ret, kw, findings, ctx)
    check_dtypes(net, tbl, findings, ctx)
    # other tables untouched
    after = snapshot(net)
    b2 = {k: v for k, v in before.items() if k not in (tbl, tbl + "_geodata", "component_list", "std_types")}
    a2 = {k: v for k, v in after.items() if k in b2}
    d = diff_snapshot(b2, a2) or std_types_changed(before, after)
    if d:
        findings.append(Finding("row", "C16.other_tables_changed." + fn, dict(ctx, change=d)))
    if tbl in before:
        old = before[tbl][1]
        cur = net[tbl].loc[old.index]
        for c in old.columns:
            if not all(same(x, y) for x, y in zip(old[c].values, cur[c].values)):
                findings.append(Finding("row", "C16.existing_rows_changed." + fn, dict(ctx, column=c)))
                break


def bulk_kwargs(op, net):
    bfn = op["fn"]
    sfn, amap = BULK[bfn]
    inv = {v: k for k, v in amap.items()}
    rows = []
    js = list(net.junction.index) if "junction" in net else []
    for r in op["rows"]:
        rr = {}
        for a, v in r.items():
            if isinstance(v, tuple) and v[0] == "STD":
                keys = sorted(net.std_types.get("pipe", {})) if "std_types" in net else []
                rr[a] = keys[v[1] % len(keys)] if keys else "no_type_available"
            elif isinstance(v, tuple):
                rr[a] = int(js[v[1] % len(js)]) if js else 777
            else:
                rr[a] = v
        if sfn == "create_ext_grid":
            typ = rr.get("type", "auto")
            if "t" in typ and rr.get("t_k") is None:
                rr["t_k"] = 333.0
            if ("p" in typ or typ == "auto") and rr.get("p_bar") is None:
                rr["p_bar"] = 4.5
            rr.setdefault("t_k", 333.0)
            rr.setdefault("p_bar", 4.5)
        rows.append(rr)
    n = len(rows)
    kw = {}
    for a in rows[0]:
        vals = [r[a] for r in rows]
        ba = inv.get(a, a)
        if a in SPEC[sfn]["opt"] and op["scalar_opts"] or a == "std_type" or a == "et":
            kw[ba] = vals[0]
            for r in rows:
                r[a] = vals[0]
        else:
            kw[ba] = vals
    if bfn == "create_junctions":
        kw["nr_junctions"] = n
    if op["with_index"]:
        tbl = SPEC[sfn]["table"]
        start = (max(net[tbl].index) + 5) if tbl in net and len(net[tbl]) else 3
        kw["index"] = [int(start + 2 * i) for i in range(n)]
        for r, i in zip(rows, kw["index"]):
            r["index"] = i
    if sfn == "create_pressure_control":
        for r in rows:
            r["check_controllability"] = False
    ok_std = not any(r.get("std_type") == "no_type_available" for r in rows)
    return kw, rows, (bool(js) or bfn == "create_junctions") and ok_std


def run_bulk(net, op, findings, step, history, case):
    import pandapipes as pp
    bfn = op["fn"]
    sfn, amap = BULK[bfn]
    tbl = SPEC[sfn]["table"]
    kw, rows, feasible = bulk_kwargs(op, net)
    expect_reject = not feasible
    fault = op["fault"]
    js = list(net.junction.index) if "junction" in net else []
    jargs = [a for a in kw if a.endswith("junctions") and a != "nr_junctions"]
    if fault == "bad_junction" and jargs:
        a = jargs[op["pos"] % len(jargs)]
        kw[a] = list(kw[a])
        kw[a][op["pos"] % len(kw[a])] = (max(js) if js else 0) + 999
        expect_reject = True
    elif fault == "dup_index" and tbl in net and len(net[tbl]):
        kw["index"] = [int(net[tbl].index[0])] + [int(max(net[tbl].index) + 10 + i) for i in range(len(rows) - 1)]
        expect_reject = True
    elif fault == "wrong_length" and len(rows) >= 2:
        cand = [a for a, v in kw.items() if isinstance(v, list) and a not in ("index",)]
        if len(cand) >= 2:
            a = cand[op["pos"] % len(cand)]
            kw[a] = kw[a][:-1]
            expect_reject = True
    elif fault == "nan_bool" and len(rows) >= 2:
        col = "opened" if bfn == "create_valves" else "in_service"
        kw[col] = [True] + [float("nan")] * (len(rows) - 1)
        expect_reject = True
    elif fault == "bad_std_type" and "std_type" in kw:
        kw["std_type"] = "no_such_type"
        expect_reject = True
    elif fault == "geodata" and bfn in ("create_junctions", "create_pipes_from_parameters", "create_pipes"):
        kw["geodata"] = [(1.0, 2.0, 3.0)] if bfn == "create_junctions" else [[(0, 0), (1, 1)]] * (len(rows) + 1)
        expect_reject = True
    before = snapshot(net)
    twin = copy.deepcopy(net)
    n_before = len(net[tbl]) if tbl in net else 0
    cont = op.get("container", "list")
    if cont != "list" and not expect_reject:
        nrow = len(rows)
        if "index" in kw:
            new_idx = list(kw["index"])
        else:
            start = int(max(net[tbl].index)) + 1 if tbl in net and len(net[tbl]) else 0
            new_idx = list(range(start, start + nrow))
        for a, v in list(kw.items()):
            if not isinstance(v, list) or len(v) != nrow or a == "index" or a == "geodata":
                continue
            numeric = all(isinstance(x, (int, float, bool)) and not isinstance(x, str) for x in v)
            if cont == "array":
                if numeric or a.endswith("junctions"):
                    kw[a] = np.array(v)
            elif numeric and not a.endswith("junctions") and a not in ("elements",):
                sidx = {"series_range": list(range(nrow)), "series_new": new_idx, "series_shift": [i + 1 for i in new_idx],
                        "series_foreign": [100000 + 7 * i for i in range(nrow)]}[cont]
                kw[a] = pd.Series(v, index=sidx)
    ctx = {"step": step, "fn": bfn, "kwargs": {k: repr(v)[:80] for k, v in kw.items()}, "fault": fault if expect_reject else None,
           "container": cont}
    try:
        ret = getattr(pp, bfn)(net, **copy.deepcopy(kw))
        raised = None
    except Exception as e:
        ret, raised = None, e
    if raised is not None:
        d, new_empty = tables_changed(before, snapshot(net))
        if d:
            findings.append(Finding("atomic", "C16.atomic.%s.%s" % (bfn, fault if expect_reject else "valid_call_raised"),
                                    dict(ctx, change=d, exc=repr(raised)[:200])))
        elif new_empty:
            findings.append(Finding("atomic", "C16.atomic.new_empty_table", dict(ctx, tables=new_empty, exc=repr(raised)[:120])))
        if not expect_reject:
            findings.append(Finding("accept", "C16.valid_call_raised." + bfn, dict(ctx, exc=repr(raised)[:300])))
        history.append("rejected")
        return
    if expect_reject:
        findings.append(Finding("reject", "C16.accepted_invalid.%s.%s" % (bfn, fault), dict(ctx, returned=repr(ret)[:80])))
        history.append("accepted_invalid")
        return
    history.append("bulk_accepted")
    d = std_types_changed(before, snapshot(net))
    if d:
        findings.append(Finding("row", "C16.other_tables_changed." + bfn, dict(ctx, change=d)))
    if len(net[tbl]) != n_before + len(rows):
        findings.append(Finding("row", "C16.row.count." + bfn, dict(ctx, before=n_before, after=len(net[tbl]))))
        return
    # bulk == singles on the twin
    try:
        for r in rows:
            getattr(pp, sfn)(twin, **copy.deepcopy(r))
    except Exception as e:
        findings.append(Finding("bulk_single", "C16.bulk_single.single_raises." + bfn, dict(ctx, exc=repr(e)[:200])))
        return
    a, b = net[tbl], twin[tbl]
    if list(a.index) != list(b.index):
        findings.append(Finding("bulk_single", "C16.bulk_single.index." + bfn, dict(ctx, bulk=list(a.index)[-4:], single=list(b.index)[-4:])))
        return
    for c in sorted(set(a.columns) | set(b.columns)):
        if c not in a.columns or c not in b.columns:
            col = a[c] if c in a.columns else b[c]
            if not all(null(v) for v in col.values):
                findings.append(Finding("bulk_single", "C16.bulk_single.column_only_in_one.%s.%s" % (bfn, c), dict(ctx)))
            continue
        if not all(same(x, y) for x, y in zip(a[c].values, b[c].values)):
            findings.append(Finding("bulk_single", "C16.bulk_single.value.%s.%s" % (bfn, c),
                                    dict(ctx, bulk=[repr(v) for v in a[c].values[-3:]], single=[repr(v) for v in b[c].values[-3:]])))
        elif a[c].dtype != b[c].dtype:
            findings.append(Finding("bulk_single", "C16.bulk_single.dtype.%s.%s" % (bfn, c), dict(ctx, bulk=str(a[c].dtype), single=str(b[c].dtype))))
    check_dtypes(net, tbl, findings, ctx)


def std_type_pairs(case, findings):
    import pandapipes as pp
    # pipe: standard type vs its parameters
    std = case["std_pair"]
    # another net of the same process whose copy of the types the user changed in place: no other net may see that
    n0 = pp.create_empty_network(fluid="water")
    n0.std_types["pipe"][std]["inner_diameter_mm"] = 1.0
    n0.std_types["pipe"][std]["k_mm"] = 77.0
    for pt in n0.std_types.get("pump", {}).values():
        if hasattr(pt, "reg_par") and isinstance(pt.reg_par, np.ndarray):
            pt.reg_par *= 0.5
    n1 = pp.create_empty_network(fluid="water")
    n2 = pp.create_empty_network(fluid="water")
    for n in (n1, n2):
        pp.create_junctions(n, 2, 5.0, 300.0)
    pp.create_pipe(n1, 0, 1, std, 0.7, loss_coefficient=1.5, sections=2, text_k=285.0)
    par = dict(n1.std_types["pipe"][std])
    from .c19 import pipe_library
    for k_, v_ in pipe_library()[std].items():
        if k_ != "u_w_per_m2k" and not same(float(par.get(k_, float("nan"))), v_):
            findings.append(Finding("std_type", "C16.std_type_differs_from_library." + k_,
                                    {"std_type": std, "in_net": repr(par.get(k_)), "library_file": v_}))
    kw = dict(length_km=0.7, inner_diameter_mm=par["inner_diameter_mm"], loss_coefficient=1.5, sections=2, text_k=285.0,
              k_mm=par.get("k_mm", 0.2))
    od = par.get("outer_diameter_mm")
    if od is not None and not (isinstance(od, float) and math.isnan(od)):
        kw["outer_diameter_mm"] = od
    u = par.get("u_w_per_m2k")
    u1 = par.get("u_w_per_mk")
    if u is not None and not (isinstance(u, float) and math.isnan(u)):
        kw["u_w_per_m2k"] = u
    elif u1 is not None and not (isinstance(u1, float) and math.isnan(u1)):
        kw["u_w_per_m2k"] = u1 / (od * math.pi) * 1000.0
    pp.create_pipe_from_parameters(n2, 0, 1, **kw)
    for c in n1.pipe.columns:
        if c == "std_type":
            continue
        x, y = n1.pipe[c].values[0], n2.pipe[c].values[0]
        if c == "u_w_per_m2k" and "u_w_per_m2k" not in kw:
            continue   # type without heat-transfer data: std-type pipe has NaN, parameter pipe the documented default
        if not same(x, y) and not (isinstance(x, float) and isinstance(y, float) and abs(x - y) <= 1e-12 * abs(x)):
            findings.append(Finding("std_type", "C16.std_type_vs_parameters.pipe." + c, {"std_type": std, "from_type": repr(x), "from_parameters": repr(y)}))
    # pump: library type vs the type's data lists
    import os
    from ..refphys import pp_dir
    name = case["pump_pair"]
    rows = [ln.strip().split(";") for ln in open(os.path.join(pp_dir(), "std_types", "library", "Pump", name + ".csv")) if ln.strip()]
    xs, ys, deg = [float(r[0]) for r in rows[1:]], [float(r[1]) for r in rows[1:]], int(float(rows[1][2]))
    res = []
    for k in (0, 1):
        n = pp.create_empty_network(fluid="water")
        pp.create_junctions(n, 3, 5.0, 300.0)
        pp.create_ext_grid(n, 0, 5.0, 300.0)
        pp.create_pipe_from_parameters(n, 1, 2, 0.2, 100.0)
        pp.create_sink(n, 2, 2.0)
        if k == 0:
            pp.create_pump(n, 0, 1, name)
        else:
            pp.create_pump_from_parameters(n, 0, 1, "my_" + name, pressure_list=ys, flowrate_list=xs, reg_polynomial_degree=deg)
        try:
            pp.pipeflow(n)
            res.append(n.res_pump.deltap_bar.values[0])
        except Exception as e:
            res.append(repr(e))
    if not (isinstance(res[0], float) and isinstance(res[1], float) and abs(res[0] - res[1]) <= 1e-9):
        findings.append(Finding("std_type", "C16.std_type_vs_parameters.pump", {"pump": name, "from_type": res[0], "from_parameters": res[1]}))


def evaluate(case):
    net = new_net(case)
    findings, history = [], []
    for step, op in enumerate(case["ops"]):
        if op.get("bulk"):
            run_bulk(net, op, findings, step, history, case)
        else:
            run_single(net, op, findings, step, history)
        if findings:
            break
    if not findings:
        check_refs(net, findings, {"history": history})
        std_type_pairs(case, findings)
    rej_after_acc = any(h == "rejected" and any(x in ("accepted", "bulk_accepted") for x in history[:i]) for i, h in enumerate(history))
    labels = {"sector:" + case["sector"]} | {"h:" + h for h in set(history)} | {"fn:" + op["fn"] for op in case["ops"]}
    for op, h in zip(case["ops"], history):
        if h == "rejected" and op.get("fault"):
            labels.add("fault:" + op["fault"])
        if op.get("bulk"):
            labels.add("bulk_values_as:" + op.get("container", "list"))
    return Outcome(findings=findings, labels=labels, nontrivial=rej_after_acc or "bulk_accepted" in history,
                   sample={"sector": case["sector"], "fluid": case["fluid"], "ops": [dict(fn=o["fn"], fault=o.get("fault")) for o in case["ops"]],
                           "history": history})


def run_shard(coll, tier, seed, shard, nshards, known):
    run_given(case_strategy(tier), evaluate, EX[tier], derive_seed("C16", seed, shard), coll, known, shrink_s=40)


def _retuple(x):
    """a replay file is JSON: the symbolic references ("J", k) / ("STD", k) / ("NEW", k) come back as lists"""
    if isinstance(x, list) and len(x) == 2 and x[0] in ("J", "STD", "NEW") and isinstance(x[1], int):
        return (x[0], x[1])
    if isinstance(x, list):
        return [_retuple(v) for v in x]
    if isinstance(x, dict):
        return {k: _retuple(v) for k, v in x.items()}
    return x


def replay(case):
    return evaluate(_retuple(case))

"""C14 - option precedence: call > user options > defaults.

Oracle: a three-layer reference merge written from doc/source/pipeflow/options.rst and the
init_options docstring; exhaustive presence patterns + generated multi-key layerings; observable
effect through pipeflow (layered run == run with the merged options passed explicitly).
"""
from __future__ import annotations

import copy
import itertools
import re

import numpy as np
from hypothesis import strategies as st

from ..runner import Finding, Outcome, derive_seed, run_cases, run_given

RULE = ("(a) exhaustive: every default key + 'iter' + an unknown key x 4 presence patterns (user, call) with distinct "
        "sentinels, plus all 2^8 patterns of iter/max_iter_hyd/max_iter_therm/max_iter_bidirect in the two layers, plus "
        "mode='all', reuse_internal_data couplings, numba fallback, documented defaults (docstring) vs defaults in force; "
        "(b) generated: random multi-key layerings through init_options; (c) generated layerings through pipeflow on small "
        "nets: net._options equals the reference merge and the results equal those of a fresh net run with the merged "
        "options passed explicitly. Non-trivial = at least one key present in >= 2 layers (or iter together with a "
        "stage limit). Distinct = distinct (user, call) pair.")
ASSUMPTIONS = ["options.rst: 'user options override all default options', 'explicit call arguments override user options'",
               "pipeflow's own bookkeeping key user_pf_options['hyd_flag'] is not a user option"]
EXHAUSTIVE_NOTE = "presence patterns per key (4 x (len(default_options)+2)) and 2^8 iter patterns are enumerated completely"
NSHARDS = {"quick": 8, "thorough": 16}
EX = {"quick": 400, "thorough": 6000}
EX_PF = {"quick": 25, "thorough": 500}

STAGES = ("max_iter_hyd", "max_iter_therm", "max_iter_bidirect")


def ref_merge(defaults, user, call, fluid_name, numba_available=True):
    def expand(layer):
        layer = copy.deepcopy(layer)
        if layer.get("iter") is not None:
            for k in STAGES:
                layer.setdefault(k, layer["iter"])
        return layer
    r = dict(copy.deepcopy(defaults))
    r.update(expand(user))
    r.update(expand(call))
    for k in ("interactive_plotting", "t_start"):
        r.pop(k, None)
    if not r["only_update_hydraulic_matrix"]:
        r["reuse_internal_data"] = False
    if not numba_available:
        r["use_numba"] = False
    if r["mode"] == "all":
        r["mode"] = "sequential"
    r["fluid"] = fluid_name
    return r


def _setup():
    import pandapipes as pp
    from pandapipes.pf import pipeflow_setup as ps
    return pp, ps


def check_layering(user, call, numba_available=True):
    """init_options level. returns list of findings."""
    pp, ps = _setup()
    findings = []
    d0 = copy.deepcopy(ps.default_options)
    net = pp.create_empty_network(fluid="water")
    if user:
        ps.set_user_pf_options(net, **copy.deepcopy(user))
    u0 = copy.deepcopy(net.get("user_pf_options", {}))
    c0 = copy.deepcopy(call)
    old = ps.numba_installed
    ps.numba_installed = numba_available
    try:
        ps.init_options(net, **call)
    finally:
        ps.numba_installed = old
    got = dict(net["_options"])
    exp = ref_merge(d0, user, c0, "water", numba_available)
    if got != exp:
        diff = {k: (repr(got.get(k, "<absent>")), repr(exp.get(k, "<absent>")))
                for k in set(got) | set(exp) if got.get(k, "<absent>") != exp.get(k, "<absent>")}
        kinds = sorted({("iter" if k in STAGES or k == "iter" else
                         "coupling" if k in ("reuse_internal_data", "mode", "use_numba") else "plain") for k in diff})
        findings.append(Finding("precedence", "C14.precedence." + "+".join(kinds), {"user": user, "call": c0, "diff": diff}))
    if ps.default_options != d0:
        findings.append(Finding("no_mutation", "C14.mutates_defaults", {"user": user, "call": c0}))
        ps.default_options.clear()
        ps.default_options.update(d0)
    if net.get("user_pf_options", {}) != u0:
        findings.append(Finding("no_mutation", "C14.mutates_user_options", {"user": user, "call": c0,
                                                                           "after": repr(net.get("user_pf_options"))}))
    if call != c0:
        findings.append(Finding("no_mutation", "C14.mutates_call_kwargs", {"call": c0}))
    return findings


def sentinel(key, layer, default):
    special = {"friction_model": {"U": "colebrook", "C": "swamee-jain"}, "mode": {"U": "all", "C": "bidirectional"},
               "nonlinear_method": {"U": "automatic", "C": "constant"}}
    if key in special:
        return special[key][layer]
    if isinstance(default, bool):
        return (not default) if layer == "U" else default
    if key == "iter":
        return 31 if layer == "U" else 47
    if isinstance(default, (int, float)) and default is not None:
        return 7.25 if layer == "U" else 9.5
    return layer + "_" + key


def enumerated_cases():
    _, ps = _setup()
    d0 = ps.default_options
    keys = list(d0) + ["iter", "zzz_unknown"]
    for key in keys:
        for pu, pc in itertools.product([0, 1], repeat=2):
            user = {key: sentinel(key, "U", d0.get(key))} if pu else {}
            call = {key: sentinel(key, "C", d0.get(key))} if pc else {}
            yield {"kind": "layering", "user": user, "call": call}
    names = ["iter"] + list(STAGES)
    for bits in itertools.product([0, 1], repeat=8):
        user = {n: 11 + i for i, n in enumerate(names) if bits[i]}
        call = {n: 21 + i for i, n in enumerate(names) if bits[4 + i]}
        yield {"kind": "layering", "user": user, "call": call}
    # couplings
    for uo, ur, co, cr in itertools.product([None, True, False], repeat=4):
        user = {k: v for k, v in (("only_update_hydraulic_matrix", uo), ("reuse_internal_data", ur)) if v is not None}
        call = {k: v for k, v in (("only_update_hydraulic_matrix", co), ("reuse_internal_data", cr)) if v is not None}
        yield {"kind": "layering", "user": user, "call": call}
    for um, cm in itertools.product([None, "all", "sequential", "hydraulics", "heat", "bidirectional"], repeat=2):
        yield {"kind": "layering", "user": {"mode": um} if um else {}, "call": {"mode": cm} if cm else {}}
    for un, cn in itertools.product([None, True, False], repeat=2):
        yield {"kind": "layering", "numba_available": False, "user": {} if un is None else {"use_numba": un},
               "call": {} if cn is None else {"use_numba": cn}}
    yield {"kind": "documented_defaults"}


DOC_LINE = re.compile(r"-\s+\*\*(\w+)\*\*\s+\((\w+)\):\s+(\S+)\s+-")


def documented_defaults():
    _, ps = _setup()
    doc = ps.init_options.__doc__
    out = {}
    for name, typ, val in DOC_LINE.findall(doc):
        v = val.strip('"').strip("'")
        if typ == "int":
            v = int(v)
        elif typ == "float":
            v = float(v)
        elif typ == "bool":
            v = v == "True"
        out[name] = v
    return out


def evaluate(case):
    kind = case["kind"]
    if kind == "layering":
        fnd = check_layering(case["user"], case["call"], case.get("numba_available", True))
        both = set(case["user"]) & set(case["call"])
        allk = set(case["user"]) | set(case["call"])
        nontriv = bool(both) or ("iter" in allk and bool(allk & set(STAGES))) or len(allk) >= 2 or bool(allk)
        labels = {"both_layers"} if both else set()
        if "iter" in allk:
            labels.add("iter")
        if case.get("numba_available") is False:
            labels.add("no_numba")
        labels.add("n_keys:%d" % min(len(allk), 5))
        return Outcome(findings=fnd, labels=labels, nontrivial=bool(both) or ("iter" in allk and bool(allk & set(STAGES))),
                       sample=case)
    if kind == "documented_defaults":
        _, ps = _setup()
        doc = documented_defaults()
        fnd = []
        if len(doc) < 10:
            fnd.append(Finding("documented_defaults", "C14.doc_unparsable", {"parsed": doc}))
        for k, v in doc.items():
            if k not in ps.default_options or ps.default_options[k] != v:
                fnd.append(Finding("documented_defaults", "C14.documented_default." + k,
                                   {"key": k, "documented": v, "in_force": repr(ps.default_options.get(k, "<absent>"))}))
        return Outcome(findings=fnd, labels={"documented_defaults"}, nontrivial=True,
                       sample={"kind": kind, "documented": doc})
    if kind == "pipeflow":
        return eval_pipeflow(case)
    raise ValueError(kind)


# ---------------------------------------------------------------------------------------------
VALUE_POOL = {
    "friction_model": ["nikuradse", "colebrook", "swamee-jain"],
    "tol_p": [1e-3, 1e-5, 1e-9], "tol_m": [1e-3, 1e-5, 1e-9], "tol_T": [1e-2, 1e-6], "tol_res": [1e-1, 1e-3, 1e-7],
    "max_iter_hyd": [1, 3, 10, 40], "max_iter_therm": [1, 3, 10, 40], "max_iter_bidirect": [2, 10, 40],
    "iter": [1, 2, 4, 25, 60], "alpha": [1, 0.7], "nonlinear_method": ["constant", "automatic"],
    "mode": ["hydraulics", "sequential", "all", "bidirectional"], "ambient_temperature": [280.0, 293.15, 300.0],
    "check_connectivity": [True], "max_iter_colebrook": [10, 100], "only_update_hydraulic_matrix": [True, False],
    "reuse_internal_data": [True, False], "use_numba": [True, False], "calc_compression_power": [True, False],
    "tolerance_colebrook": [1e-4, 1e-8], "zzz_unknown": [1, "x"], "yyy_unknown": [None, 2.5],
    "quit_on_inconsistency_connectivity": [False, True], "error_flag": [False, True],
}


@st.composite
def layer(draw, keys, max_keys):
    ks = draw(st.lists(st.sampled_from(keys), unique=True, max_size=max_keys))
    return {k: draw(st.sampled_from(VALUE_POOL[k])) for k in ks}


@st.composite
def layering_case(draw):
    keys = sorted(VALUE_POOL)
    hot = draw(st.lists(st.sampled_from(keys), unique=True, min_size=1, max_size=6))  # keys likely in both layers
    user = draw(layer(hot + ["iter"] + list(STAGES), 6))
    call = draw(layer(hot + ["iter"] + list(STAGES), 6))
    return {"kind": "layering", "user": user, "call": call}


@st.composite
def pipeflow_case(draw):
    keys = [k for k in sorted(VALUE_POOL) if k not in ("error_flag",)]
    hot = draw(st.lists(st.sampled_from(keys), unique=True, min_size=1, max_size=5))
    user = draw(layer(hot + ["iter", "max_iter_hyd", "mode", "friction_model"], 5))
    call = draw(layer(hot + ["iter", "max_iter_hyd", "mode", "friction_model"], 5))
    # an earlier calculation on the same net object with other call options: what was in force then must not linger
    before = draw(layer(hot + ["mode", "friction_model", "ambient_temperature"], 4)) if draw(st.booleans()) else None
    return {"kind": "pipeflow", "user": user, "call": call, "net": draw(st.integers(0, 2)), "before": before}


def small_net(k):
    import pandapipes as pp
    net = pp.create_empty_network(fluid="water")
    j = pp.create_junctions(net, 4, 5.0, 320.0, height_m=[0.0, 5.0, 2.0, 0.0][: 4])
    pp.create_ext_grid(net, j[0], 5.0, 350.0, type="pt")
    pp.create_pipe_from_parameters(net, j[0], j[1], 0.3, 80.0, k_mm=0.2, u_w_per_m2k=5.0, text_k=283.0, sections=2)
    pp.create_pipe_from_parameters(net, j[1], j[2], 0.2, 50.0, k_mm=0.1, u_w_per_m2k=2.0, text_k=283.0)
    pp.create_pipe_from_parameters(net, j[1], j[3], 0.4, 50.0, k_mm=0.1, u_w_per_m2k=2.0)    # ambient temperature option in force
    pp.create_sink(net, j[2], 0.4 + 0.2 * k)
    pp.create_sink(net, j[3], 0.3)
    if k == 1:
        pp.create_pipe_from_parameters(net, j[2], j[3], 0.1, 50.0, k_mm=0.1, u_w_per_m2k=2.0, text_k=283.0)
    if k == 2:
        pp.create_valve(net, j[2], j[3], "ju", 50.0, loss_coefficient=2.0)
    return net


def _run(net, **kw):
    import pandapipes as pp
    try:
        pp.pipeflow(net, **kw)
        return "ok"
    except Exception as e:
        return type(e).__name__


def eval_pipeflow(case):
    pp, ps = _setup()
    user, call = case["user"], case["call"]
    net = small_net(case["net"])
    if user:
        ps.set_user_pf_options(net, **copy.deepcopy(user))
    d0 = copy.deepcopy(ps.default_options)
    exp = ref_merge(d0, user, call, "water")
    if case.get("before") is not None:
        _run(net, **copy.deepcopy(case["before"]))
    st1 = _run(net, **copy.deepcopy(call))
    fnd = []
    got = dict(net["_options"])
    skip = {"alpha"} if exp["nonlinear_method"] == "automatic" else set()
    skip.add("hyd_flag")      # pipeflow's own bookkeeping in user_pf_options (see C12), carried into _options by a second call
    diff = {k: (repr(got.get(k, "<absent>")), repr(exp.get(k, "<absent>"))) for k in set(got) | set(exp)
            if k not in skip and got.get(k, "<absent>") != exp.get(k, "<absent>")}
    if diff:
        fnd.append(Finding("in_force", "C14.pipeflow_options", {"user": user, "call": call, "diff": diff}))
    upo = {k: v for k, v in net.get("user_pf_options", {}).items() if k != "hyd_flag"}
    if upo != user:
        fnd.append(Finding("no_mutation", "C14.mutates_user_options", {"user": user, "after": repr(upo)}))
    if ps.default_options != d0:
        fnd.append(Finding("no_mutation", "C14.mutates_defaults", {"user": user, "call": call}))
        ps.default_options.clear(); ps.default_options.update(d0)
    # observable effect: same as a fresh net with the merged options passed explicitly
    net2 = small_net(case["net"])
    flat = {k: v for k, v in exp.items() if k != "fluid"}
    st2 = _run(net2, **flat)
    if st1 != st2:
        fnd.append(Finding("observable", "C14.observable.status", {"user": user, "call": call, "layered": st1, "explicit": st2}))
    elif st1 == "ok":
        for t in [k for k in net.keys() if k.startswith("res_")]:
            a, b = net[t], net2[t]
            if not (a.shape == b.shape and np.array_equal(a.values.astype(float), b.values.astype(float), equal_nan=True)):
                fnd.append(Finding("observable", "C14.observable.results", {"user": user, "call": call, "table": t}))
                break
        ir = net["_internal_results"]
        lim = {"hydraulics": exp["max_iter_hyd"], "heat": exp["max_iter_therm"], "bidirectional": exp["max_iter_bidirect"]}
        for stage, mx in lim.items():
            it = ir.get("iterations_" + stage)
            if it is not None and it > mx:
                fnd.append(Finding("observable", "C14.observable.iterations", {"stage": stage, "iterations": it, "limit": mx}))
    both = set(user) & set(call)
    allk = set(user) | set(call)
    labels = {"pipeflow", "status:" + st1, "mode:" + str(exp["mode"])} | ({"after_earlier_run_with_other_options"} if case.get("before") is not None else set())
    if both:
        labels.add("both_layers")
    return Outcome(findings=fnd, labels=labels, nontrivial=bool(both) or ("iter" in allk and bool(allk & set(STAGES))),
                   sample=case)


def run_shard(coll, tier, seed, shard, nshards, known):
    if shard == 0:
        run_cases(enumerated_cases(), evaluate, coll, known)
        coll.bump("enumerated_cases", coll.evaluations)
    if shard % 2 == 0:
        run_given(layering_case(), evaluate, EX[tier], derive_seed("C14", seed, shard), coll, known)
    else:
        run_given(pipeflow_case(), evaluate, EX_PF[tier], derive_seed("C14pf", seed, shard), coll, known)


def replay(case):
    return evaluate(case)

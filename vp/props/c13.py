"""C13 - each time-series step equals a stand-alone calculation with that step's inputs."""
from __future__ import annotations

import copy

import numpy as np
import pandas as pd
from hypothesis import strategies as st

from .. import gen, genheat
from ..recipe import abbreviate, build, solve
from ..runner import Finding, Outcome, derive_seed, run_given

RULE = ("cases = (recipe, profile table for a generated subset of sinks / sources (mdot_kg_per_s), ext grids (p_bar, in_service = supply "
        "outage), valves (opened), pipes / sinks / exchangers (in_service), heat consumers (qext_w), flow and pressure controllers "
        "(set-points) over 1..8 steps; optionally only_update_hydraulic_matrix + reuse_internal_data when only loads change; "
        "optionally one target driven by a controller that needs 2-4 control iterations per step; "
        "with some steps made infeasible on purpose (absurd load), list of time steps to run = generated subset in generated "
        "order, continue_on_divergence flag, pipeflow options incl. sequential mode on heating loops). The series is run with "
        "ConstControl + OutputWriter; every logged step is compared bit-exactly with pipeflow on a freshly built net carrying that "
        "step's values. Non-trivial = >= 3 steps run and a failing step that is not the last one, or the steps are run out of "
        "order. Distinct = distinct case hash.")
ASSUMPTIONS = ["a failed step is 'reported as such' through OutputWriter.output['Parameters'].powerflow_failed (its logged row is not asserted)",
               "without continue_on_divergence the series raises PipeflowNotConverged at the first failing step; earlier steps are logged"]
EX = {"quick": 10, "thorough": 500}
LOG = [("res_junction", "p_bar"), ("res_junction", "t_k"), ("res_pipe", "mdot_from_kg_per_s"), ("res_ext_grid", "mdot_kg_per_s"),
       ("res_sink", "mdot_kg_per_s")]


@st.composite
def case_strategy(draw, tier):
    if draw(st.integers(0, 3)) == 0:
        rec = draw(genheat.heat_net(max_n=3, feeders=["eg"], modes=["hex", "hex_free", "mf_q"], labels=False))
        opts = {"mode": draw(st.sampled_from(["sequential", "hydraulics"])), "iter": 40}
    else:
        rec, opts = draw(gen.hyd_case(max_n=7, tight=False, allow_lift=False))
        opts["mode"] = "hydraulics"
        opts["iter"] = 40
    rec.pop("row_order", None)
    nsteps = draw(st.integers(3, 8))
    targets = []
    first = True
    structural = draw(st.booleans())      # profiles that switch elements (topology changes from step to step)
    for e in rec["elements"]:
        if e["table"] in ("sink", "source") and (first or draw(st.booleans())):
            first = False
            targets.append((e["table"], e["index"], "mdot_kg_per_s", e["mdot_kg_per_s"]))
        if e["table"] == "ext_grid" and e.get("p_bar") is not None and draw(st.integers(0, 3)) == 0:
            targets.append((e["table"], e["index"], "p_bar", e["p_bar"]))
        elif e["table"] == "ext_grid" and structural and draw(st.integers(0, 2)) == 0:
            targets.append((e["table"], e["index"], "in_service", True))      # supply outage in some steps
        elif structural and e["table"] == "valve" and draw(st.integers(0, 2)) == 0:
            targets.append((e["table"], e["index"], "opened", True))          # switching schedule
        elif structural and e["table"] in ("pipe", "sink", "heat_exchanger") and draw(st.integers(0, 5)) == 0:
            targets.append((e["table"], e["index"], "in_service", True))
        elif e["table"] == "heat_consumer" and e.get("qext_w") is not None and draw(st.booleans()):
            targets.append((e["table"], e["index"], "qext_w", e["qext_w"]))
        elif e["table"] == "flow_control" and draw(st.booleans()):
            targets.append((e["table"], e["index"], "controlled_mdot_kg_per_s", e["controlled_mdot_kg_per_s"]))
        elif e["table"] == "press_control" and draw(st.integers(0, 2)) == 0:
            targets.append((e["table"], e["index"], "controlled_p_bar", e["controlled_p_bar"]))
    # controller loop inside every step: a controller that needs several control iterations (it walks the target through
    # intermediate values before it writes the step's value and reports convergence). Such a series gets no absurd load at all
    # (failing steps then come from supply outages): whether an absurdly loaded net converges is erratic, so a step could fail
    # in an intermediate control iteration although the stand-alone calculation with the final values happens to converge
    walkable = (("sink", "mdot_kg_per_s"), ("heat_consumer", "qext_w"), ("flow_control", "controlled_mdot_kg_per_s"))
    loop = draw(st.integers(1, 3)) if draw(st.integers(0, 2)) == 0 else 0
    walk_k = next((k for k, t_ in enumerate(targets) if (t_[0], t_[2]) in walkable), None) if loop else None
    prof = {}
    for k, (t, i, col, base) in enumerate(targets):
        vals = []
        if col in ("in_service", "opened"):
            prof["c%d" % k] = [draw(st.integers(0, 2)) > 0 for _ in range(nsteps)]
            continue
        for s in range(nsteps):
            fac = draw(st.sampled_from([0.0, 0.5, 1.0, 1.0, 1.3, 2.0] if col not in ("p_bar", "controlled_p_bar") else [0.9, 1.0, 1.1]))
            v = base * fac
            if col == "mdot_kg_per_s" and walk_k is None and draw(st.integers(0, 5)) == 0:
                v = abs(base) * 1e5 + 1e3      # infeasible on purpose
            vals.append(v)
        prof["c%d" % k] = vals
    steps = draw(st.lists(st.integers(0, nsteps - 1), min_size=3, max_size=nsteps, unique=True))
    opts = dict(opts)
    if not any(t[2] in ("in_service", "opened") for t in targets) and draw(st.integers(0, 2)) == 0:
        # the usual speed-up for time series whose structure does not change: only the loads differ between steps
        opts.update(only_update_hydraulic_matrix=True, reuse_internal_data=True)
    if walk_k is not None:
        # the turbulent-only friction models (Colebrook-White, Swamee-Jain) fail erratically on weakly loaded nets, so an
        # intermediate control iteration could fail where the final values converge (see gen.hyd_case)
        opts["friction_model"] = "nikuradse"
    return {"recipe": rec, "options": opts, "targets": [list(t[:3]) for t in targets], "profile": prof, "steps": steps,
            "continue_on_divergence": draw(st.booleans()), "controller_loop": loop if walk_k is not None else 0,
            "walk_target": walk_k}


def make_walk_controller():
    """A controller with a real control loop: in every time step it first writes `n` intermediate values (the step's value
    scaled by 0.5, 0.75, ...) and only then the step's value itself, reporting convergence afterwards. What is logged for the
    step must be the calculation with the final value - not one of the intermediate iterations."""
    from pandapower.control.basic_controller import Controller

    class WalkControl(Controller):
        def __init__(self, net, element, variable, element_index, values, n, **kw):
            super().__init__(net, **kw)
            self.element, self.variable, self.element_index = element, variable, element_index
            self.values, self.n = list(values), n
            self.todo = []

        def time_step(self, net, time):
            # like ConstControl, the first value of the step is written at once, so that every calculation of this step
            # is defined by this step's values alone (nothing is left over from a preceding, possibly failed, step)
            v = self.values[time]
            self.todo = [v * (0.5 + 0.25 * k) for k in range(self.n)] + [v]
            net[self.element].at[self.element_index, self.variable] = self.todo.pop(0)

        def is_converged(self, net):
            return not self.todo

        def control_step(self, net):
            net[self.element].at[self.element_index, self.variable] = self.todo.pop(0)
    return WalkControl


def evaluate(case):
    import pandapipes as pp
    import pandapower.control as control
    from pandapower.timeseries import DFData, OutputWriter
    from pandapipes.timeseries import run_timeseries
    from pandapipes.pf.pipeflow_setup import PipeflowNotConverged
    rec, opts = case["recipe"], case["options"]
    if not case["targets"]:
        return Outcome(discard="no_profile_target")
    net = build(rec)
    prof = pd.DataFrame(case["profile"])
    by_tv = {}
    for k, (t, i, col) in enumerate(case["targets"]):
        by_tv.setdefault((t, col), []).append((i, "c%d" % k))
    walked = None
    if case.get("controller_loop"):
        # only quantities whose intermediate (smaller) values keep a feasible step feasible (chosen by the generator)
        k0 = case.get("walk_target")
        if k0 is not None:
            t, i, col = case["targets"][k0]
            make_walk_controller()(net, t, col, i, list(prof["c%d" % k0]), case["controller_loop"])
            walked = k0
    for (t, col), lst in by_tv.items():
        lst = [(i, c) for i, c in lst if c != "c%s" % walked]
        if not lst:
            continue
        # one data source per controlled column: a row of a frame with mixed bool / float columns would be read as object dtype
        control.ConstControl(net, element=t, variable=col, element_index=[i for i, _ in lst],
                             data_source=DFData(prof[[c for _, c in lst]].copy()), profile_name=[c for _, c in lst])
    log = [(a, b) for a, b in LOG if a in net or a[4:] in net]
    log = [(a, b) for a, b in log if a[4:] in net and len(net[a[4:]])]
    ow = OutputWriter(net, time_steps=list(case["steps"]), output_path=None, log_variables=log)
    cod = case["continue_on_divergence"]
    raised = None
    try:
        run_timeseries(net, time_steps=list(case["steps"]), continue_on_divergence=cod, verbose=False, **opts)
    except PipeflowNotConverged as e:
        raised = e
    except Exception as e:
        from ..recipe import exc_sig
        return Outcome(findings=[Finding("series", "C13.series.raises." + exc_sig(e), {"exc": repr(e)[:300]})], labels={"crash"},
                       nontrivial=True, sample=_sample(case))
    f = []
    params = ow.output.get("Parameters")
    statuses = []
    for pos, s in enumerate(case["steps"]):
        fresh = build(rec)
        for k, (t, i, col) in enumerate(case["targets"]):
            fresh[t].at[i, col] = prof["c%d" % k].iloc[s]
        r = solve(fresh, **{k_: v_ for k_, v_ in opts.items() if k_ != "reuse_internal_data"})
        statuses.append("ok" if r.returned else r.status)
        if r.status == "crash":
            from ..recipe import exc_sig
            f.append(Finding("standalone", "C13.standalone.crash." + exc_sig(r.exc), {"step": s}))
            break
        if not r.returned:     # (a returned state that recipe.solve classifies as unphysical is still a returned calculation)
            if not cod:
                if raised is None:
                    f.append(Finding("divergence", "C13.divergence.not_raised", {"step": s, "position": pos, "statuses": statuses}))
                break
            flag = bool(params.loc[s, "powerflow_failed"]) if params is not None and s in params.index else None
            if flag is not True:
                f.append(Finding("divergence", "C13.divergence.not_flagged", {"step": s, "powerflow_failed": flag}))
            continue
        if params is not None and s in params.index and bool(params.loc[s, "powerflow_failed"]):
            f.append(Finding("divergence", "C13.divergence.flagged_but_standalone_ok", {"step": s, "position": pos, "previous": statuses[:-1]}))
            continue
        for tbl, col in log:
            key = "%s.%s" % (tbl, col)
            # np_results holds one row per requested step (by position); the DataFrames in ow.output are only
            # assembled when the series ends normally
            if key not in ow.np_results or pos >= len(ow.np_results[key]):
                f.append(Finding("logged", "C13.logged.missing", {"step": s, "variable": key}))
                break
            got = np.asarray(ow.np_results[key][pos], dtype=float)
            if raised is None and (key not in ow.output or s not in ow.output[key].index or
                                   not np.array_equal(ow.output[key].loc[s].values.astype(float), got, equal_nan=True)):
                f.append(Finding("logged", "C13.logged.output_table", {"step": s, "variable": key}))
                break
            exp = fresh[tbl][col].values.astype(float)
            if got.shape != exp.shape or not np.array_equal(got, exp, equal_nan=True):
                bad = int(np.flatnonzero(~((got == exp) | (np.isnan(got) & np.isnan(exp))))[0]) if got.shape == exp.shape else -1
                f.append(Finding("logged", "C13.logged.%s" % key, {"step": s, "position": pos, "previous": statuses[:-1],
                                                                  "logged": got[bad] if bad >= 0 else list(got), "standalone": exp[bad] if bad >= 0 else list(exp),
                                                                  "element_pos": bad}))
                break
        if f:
            break
    else:
        if raised is not None and cod:
            f.append(Finding("divergence", "C13.divergence.raised_despite_continue", {"exc": repr(raised)[:200]}))
    if raised is not None and not cod and all(st_ == "ok" for st_ in statuses):
        f.append(Finding("divergence", "C13.divergence.raised_without_failing_step", {"statuses": statuses}))
    fail_pos = [i for i, s_ in enumerate(statuses) if s_ != "ok"]
    out_of_order = list(case["steps"]) != sorted(case["steps"])
    labels = {"mode:" + opts["mode"], "cod" if cod else "stop_on_divergence", "n_steps:%d" % len(case["steps"])}
    if fail_pos:
        labels.add("has_failing_step")
    if any(col == "in_service" for _, _, col in case["targets"]):
        labels.add("supply_outage_profile")
    if out_of_order:
        labels.add("out_of_order")
    if opts.get("reuse_internal_data"):
        labels.add("reuse_internal_data")
    if walked is not None:
        labels.add("controller_loop")
    for _, _, col in case["targets"]:
        labels.add("profile:" + col)
    nontriv = len(case["steps"]) >= 3 and ((fail_pos and fail_pos[0] < len(case["steps"]) - 1) or out_of_order)
    return Outcome(findings=f, labels=labels, nontrivial=nontriv, sample=_sample(case))


def _sample(case):
    return {"recipe": abbreviate(case["recipe"]), "targets": case["targets"], "profile": case["profile"], "steps": case["steps"],
            "continue_on_divergence": case["continue_on_divergence"], "options": case["options"],
            "controller_loop": case.get("controller_loop", 0)}


def run_shard(coll, tier, seed, shard, nshards, known):
    run_given(case_strategy(tier), evaluate, EX[tier], derive_seed("C13", seed, shard), coll, known, shrink_s=40)


def replay(case):
    return evaluate(case)

"""C03 - prescribed pressures, flows, lifts and ratios are met exactly.

Oracle: identities on the result tables, one clause per kind of set-point (docs of each component).
"""
from __future__ import annotations

import math

import numpy as np
from hypothesis import strategies as st

from .. import gen, genheat
from ..recipe import PRELUDES, solve_after_prelude, abbreviate, build, solve
from ..refphys import G, P_CONV, RefFluid, gas_density, p_amb
from ..runner import Finding, Outcome, derive_seed, run_given

RULE = ("cases = generated hydraulic nets (ext grids incl. several per junction and out-of-service ones, pressure controllers "
        "with control_active on/off, flow controllers, compressors, pumps P1-P3, loads with scalings and in_service flags) and "
        "district-heating loops (pressure / mass circulation pumps), tight and default tolerances. Every set-point clause is "
        "evaluated on every element that has results. Non-trivial = >= 2 different kinds of controlling components active "
        "with results in one net, or >= 2 in-service ext grids on one junction, or a pump at T != 273.15 K or across a "
        "height step. Distinct = distinct recipe hash.")
ASSUMPTIONS = ["a junction that is fixed by an ext grid / circulation pump AND is the controlled junction of an active pressure "
               "controller is over-determined; no clause is asserted for it",
               "compressor and pump are zero-length branches: p_to,abs = p_from,abs + lift + rho g dh (documented momentum equation)"]
EX = {"quick": 60, "thorough": 2500}


@st.composite
def case_strategy(draw, tier):
    if draw(st.integers(0, 3)) == 0:
        rec = draw(genheat.heat_net(max_n=4 if tier == "quick" else 8, allow_oos=True, allow_makeup=True))
        opts = draw(genheat.heat_options(tight=draw(st.booleans())))
    else:
        focus = draw(st.sampled_from(["any", "any", "pumps", "compressors"]))
        # several pumps / compressors are only feasible without a bypass around them: tree nets with one feeder
        kw = {"pumps": dict(liquids_only=True, lift_bias=10, extra_edges=0, allow_parallel=False, max_eg=1),
              "compressors": dict(gases_only=True, lift_bias=10, extra_edges=0, allow_parallel=False, max_eg=1)}.get(focus, {})
        rec, opts = draw(gen.hyd_case(max_n=9 if tier == "quick" else 25, **kw))
        opts["mode"] = "hydraulics"
    # one case in three is calculated on a net object with a history (see recipe.solve_after_prelude)
    prelude = draw(st.sampled_from([None, None, None, None] + PRELUDES[:3] * 2 + PRELUDES[3:] + PRELUDES[5:]))
    return {"recipe": rec, "options": opts, "prelude": prelude}


def _ok(a, b, rel=1e-9, abs_=1e-12):
    return abs(a - b) <= rel * max(abs(a), abs(b)) + abs_


def evaluate(case):
    rec, opts = case["recipe"], case["options"]
    net, r = solve_after_prelude(rec, opts, case.get("prelude"))
    if not r.ok:
        return Outcome(discard=r.status)
    fl = RefFluid.get(rec["fluid"])
    f = []
    kinds = set()
    labels = {"gas" if fl.is_gas else "liquid", "mode:" + opts["mode"], "tight" if "tol_m" in opts else "default_tol",
              "history:" + str(case.get("prelude"))}
    pj, hj = net.res_junction.p_bar, net.junction.height_m
    thermal = opts["mode"] != "hydraulics"
    special = False
    # ---- fixed pressures
    fixed = {}
    if "ext_grid" in net and len(net.ext_grid):
        eg = net.ext_grid
        for j, grp in eg[eg.in_service & eg.type.isin(["p", "pt"])].groupby("junction"):
            fixed.setdefault(int(j), []).extend(list(grp.p_bar.values))
            if len(grp) >= 2:
                labels.add("multi_ext_grid_junction")
                special = True
    for t in ("circ_pump_pressure", "circ_pump_mass"):
        if t in net and len(net[t]):
            cp = net[t]
            for idx in cp.index[cp.in_service.values]:
                fixed.setdefault(int(cp.at[idx, "flow_junction"]), []).append(float(cp.at[idx, "p_flow_bar"]))
    pc_ctrl = {}
    if "press_control" in net and len(net.press_control):
        pc = net.press_control
        for idx in pc.index:
            if pc.at[idx, "in_service"] and pc.at[idx, "control_active"] and not np.isnan(net.res_press_control.at[idx, "mdot_from_kg_per_s"]):
                pc_ctrl.setdefault(int(pc.at[idx, "controlled_junction"]), []).append(idx)
    for j, vals in fixed.items():
        if j in pc_ctrl or np.isnan(pj.at[j]) or not net.junction.at[j, "in_service"]:
            continue
        exp = sum(vals) / len(vals)
        kinds.add("fixed_pressure")
        # fixed rows read "delta p = 0": the value is kept, not re-imposed, so it drifts by the round-off of the linear
        # solve in every iteration (measured up to 2e-8 bar on ill-conditioned nets with compressors)
        if not _ok(pj.at[j], exp, 1e-8, 1e-8):
            f.append(Finding("fixed_pressure", "C03.fixed_pressure", {"junction": j, "p_bar": pj.at[j], "expected_mean": exp, "values": vals}))
    # ---- pressure controllers
    for j, idxs in pc_ctrl.items():
        if j in fixed or len(idxs) > 1:
            continue
        idx = idxs[0]
        kinds.add("press_control")
        exp = net.press_control.at[idx, "controlled_p_bar"]
        if not _ok(pj.at[j], exp, 1e-8, 1e-7):
            f.append(Finding("press_control", "C03.press_control", {"press_control": int(idx), "junction": j, "p_bar": pj.at[j],
                                                                   "controlled_p_bar": exp}))
    # ---- flow controllers / mass circulation pumps
    for t, col, act in (("flow_control", "controlled_mdot_kg_per_s", "control_active"), ("circ_pump_mass", "mdot_flow_kg_per_s", None)):
        if t in net and len(net[t]):
            for idx in net[t].index:
                m = net["res_" + t].at[idx, "mdot_from_kg_per_s"]
                if np.isnan(m) or not net[t].at[idx, "in_service"] or (act and not net[t].at[idx, act]):
                    continue
                kinds.add(t)
                # a kept (not re-imposed) value: drifts by the round-off of the linear solve in every iteration; after ~100
                # iterations of a slowly converging loop 1.03e-8 relative was seen (thorough tier)
                if not _ok(m, net[t].at[idx, col], 1e-7, 1e-11):
                    f.append(Finding("set_flow", "C03.set_flow." + t, {t: int(idx), "mdot_from": m, "set": net[t].at[idx, col]}))
    # ---- pressure circulation pump: lift between the junction pressures
    if "circ_pump_pressure" in net and len(net.circ_pump_pressure):
        cp = net.circ_pump_pressure
        for idx in cp.index:
            if not cp.at[idx, "in_service"] or np.isnan(net.res_circ_pump_pressure.at[idx, "mdot_from_kg_per_s"]):
                continue
            rj, fj = int(cp.at[idx, "return_junction"]), int(cp.at[idx, "flow_junction"])
            kinds.add("circ_pump_pressure")
            lift = pj.at[fj] - pj.at[rj]
            # heights of both junctions are equal in the generated loops; the hydrostatic term is added for generality
            rho = fl.density(net.res_circ_pump_pressure.at[idx, "t_from_k"]) if not fl.is_gas else 0.0
            hyd = rho * G * (hj.at[rj] - hj.at[fj]) / P_CONV
            if not _ok(lift, cp.at[idx, "plift_bar"] + hyd, 1e-9, 1e-9):
                f.append(Finding("lift", "C03.lift.circ_pump_pressure", {"circ_pump": int(idx), "p_flow-p_return": lift,
                                                                        "plift_bar": cp.at[idx, "plift_bar"]}))
    # ---- compressor and pump
    def rho_mean(res, fjn, tjn):
        t_from, t_out = res["t_from_k"], res["t_outlet_k"]
        if thermal and res["mdot_from_kg_per_s"] < -2e-11:
            t_from = res["t_to_k"]
        if fl.is_gas:
            return (gas_density(fl, res["p_from_bar"] + p_amb(hj.at[fjn]), t_from) +
                    gas_density(fl, res["p_to_bar"] + p_amb(hj.at[tjn]), t_out)) / 2
        return (fl.density(t_from) + fl.density(t_out)) / 2

    from ..compare import flow_scale
    flow_scale_ = flow_scale(net)
    # flows below the accuracy of the run count as stagnant for the lift clauses (discontinuous lift at zero flow)
    stagnant_thr = max(1e-9, 1e-5 * flow_scale_, 0.0 if "tol_m" in opts else 1e-6)
    if "compressor" in net and len(net.compressor):
        for idx in net.compressor.index:
            res = net.res_compressor.loc[idx]
            m = res.mdot_from_kg_per_s
            if np.isnan(m) or not net.compressor.at[idx, "in_service"]:
                continue
            fjn, tjn = int(net.compressor.at[idx, "from_junction"]), int(net.compressor.at[idx, "to_junction"])
            kinds.add("compressor")
            ratio = net.compressor.at[idx, "pressure_ratio"]
            pf, pt = res.p_from_bar + p_amb(hj.at[fjn]), res.p_to_bar + p_amb(hj.at[tjn])
            hyd = rho_mean(res, fjn, tjn) * G * (hj.at[fjn] - hj.at[tjn]) / P_CONV
            exp_lift = pf * (ratio - 1.0) if m >= 0 else 0.0
            if abs(m) < stagnant_thr:     # stagnant within the accuracy of the flow split: lift discontinuous
                continue   # the lift is discontinuous at zero flow (see C07 known finding): no clause at exactly zero flow
            # the lift is evaluated from the from-pressure of the previous Newton iterate (<= tol_p in force away)
            lagp = 4.0 * opts.get("tol_p", 1e-5) * max(ratio, 1.0)
            if not _ok(pt, pf + exp_lift + hyd, 1e-9, 1e-9 + lagp):
                f.append(Finding("ratio", "C03.ratio.compressor." + ("forward" if m >= 0 else "reverse"),
                                 {"compressor": int(idx), "p_from_abs": pf, "p_to_abs": pt, "ratio": ratio, "hydrostatic": hyd, "mdot": m}))
            if not _ok(res.deltap_bar, exp_lift, 1e-9, 1e-9 + lagp):
                f.append(Finding("ratio", "C03.ratio.compressor.deltap", {"compressor": int(idx), "deltap_bar": res.deltap_bar,
                                                                         "expected": exp_lift}))
    if "pump" in net and len(net.pump):
        for idx in net.pump.index:
            res = net.res_pump.loc[idx]
            m = res.mdot_from_kg_per_s
            if np.isnan(m) or not net.pump.at[idx, "in_service"] or abs(m) < stagnant_thr:
                continue
            fjn, tjn = int(net.pump.at[idx, "from_junction"]), int(net.pump.at[idx, "to_junction"])
            kinds.add("pump")
            stype = net.std_types["pump"][net.pump.at[idx, "std_type"]]
            vdot = res.vdot_m3_per_s if not fl.is_gas else res.vdot_norm_m3_per_s * res.normfactor_from
            exp = max(0.0, float(np.polyval(np.asarray(stype.reg_par, dtype=float), vdot * 3600.0))) if m >= 0 else 0.0
            if abs(res.t_from_k - 273.15) > 1.0 or abs(hj.at[fjn] - hj.at[tjn]) > 0:
                special = True
                labels.add("pump_T_or_height")
            # the curve is steep; the reported flow is final, the lift was evaluated one Newton step earlier
            slope = abs(float(np.polyval(np.polyder(np.asarray(stype.reg_par, dtype=float)), vdot * 3600.0))) * 3600.0
            lag = slope * (4e-9 if "tol_m" in opts else 4e-5) / max(fl.density(273.15), 1e-3)
            if not _ok(res.deltap_bar, exp, 1e-8, 1e-9 + lag):
                f.append(Finding("pump_curve", "C03.pump_curve." + ("gas" if fl.is_gas else "liquid"),
                                 {"pump": int(idx), "deltap_bar": res.deltap_bar, "curve_at_reported_vdot": exp, "vdot_m3_per_s": vdot,
                                  "t_from_k": res.t_from_k, "mdot": m}))
            pf, pt = res.p_from_bar + p_amb(hj.at[fjn]), res.p_to_bar + p_amb(hj.at[tjn])
            hyd = rho_mean(res, fjn, tjn) * G * (hj.at[fjn] - hj.at[tjn]) / P_CONV
            if not _ok(pt, pf + res.deltap_bar + hyd, 1e-9, 1e-8 if "tol_m" in opts else 1e-4):
                f.append(Finding("pump_lift", "C03.pump_lift", {"pump": int(idx), "p_from_abs": pf, "p_to_abs": pt,
                                                                "deltap_bar": res.deltap_bar, "hydrostatic": hyd}))
    # ---- loads
    for t in ("sink", "source", "mass_storage"):
        if t in net and len(net[t]):
            for idx in net[t].index:
                j = int(net[t].at[idx, "junction"])
                got = net["res_" + t].at[idx, "mdot_kg_per_s"]
                served = net[t].at[idx, "in_service"] and not np.isnan(pj.at[j])
                if served:
                    exp = net[t].at[idx, "mdot_kg_per_s"] * net[t].at[idx, "scaling"]
                    if np.isnan(got) or not _ok(got, exp, 1e-14, 0.0):
                        f.append(Finding("load", "C03.load." + t, {t: int(idx), "reported": got, "expected": exp}))
                elif not np.isnan(got):
                    f.append(Finding("load", "C03.load.unserved_reports." + t, {t: int(idx), "reported": got}))
    for k_ in kinds:
        labels.add("kind:" + k_)
    nontriv = len(kinds - {"fixed_pressure"}) >= 2 or (len(kinds) >= 2 and "fixed_pressure" in kinds and len(kinds) >= 3) or special \
        or len(kinds) >= 2
    return Outcome(findings=f, labels=labels, nontrivial=nontriv and len(kinds) >= 2 or special,
                   sample={"recipe": abbreviate(rec), "options": opts, "kinds": sorted(kinds)})


def run_shard(coll, tier, seed, shard, nshards, known):
    run_given(case_strategy(tier), evaluate, EX[tier], derive_seed("C03", seed, shard), coll, known)


def replay(case):
    return evaluate(case)

"""C11 - heat exchangers, consumers and circulation pumps report consistent heat duties."""
from __future__ import annotations

import math

import numpy as np
from hypothesis import strategies as st

from .. import genheat
from ..recipe import abbreviate, build
from ..refphys import RefFluid
from ..runner import Finding, Outcome, derive_seed, run_given
from .c10 import run_thermal, streams

RULE = ("cases = (district-heating loop recipe with 1..6 consumers in the five specification modes mdot+Q, mdot+dT, mdot+T_ret, "
        "Q+dT, Q+T_ret, heat exchangers with and without flow control, Q of either sign, options sequential / bidirectional, "
        "numba on/off, tight tolerances). Clauses: duty identity q = mdot * cp_mean * (T_in - T_out) per exchanger / consumer; "
        "set-points of the two prescribed consumer quantities (whenever mdot is prescribed or the mode is bidirectional); loop "
        "closure: the heat reported by the circulation pump(s) of a loop (one pump, a second pump in parallel, a decentral "
        "second pump) equals what consumers, exchangers and pipes take out; every pump's reported heat equals the heat added to "
        "its own stream. Non-trivial = >= 2 consumers in different modes, or a negative Q, "
        "or bidirectional mode. Distinct = distinct recipe hash.")
ASSUMPTIONS = ["cp_mean = (cp(T_in) + cp(T_out)) / 2 with T_in the temperature of the upstream junction",
               "loop closure is asserted for closed loops fed by circulation pumps only (no ext grids, no sinks / sources); bound = sum over elements of "
               "mdot * (cp_max - cp_min) * |dT| + 1e-6 relative",
               "sequential mode, consumer specified by (Q, T_ret): duty identity is a known finding (needs the coupled iteration)"]
EX = {"quick": 45, "thorough": 1800}


@st.composite
def case_strategy(draw, tier):
    rec = draw(genheat.heat_net(max_n=5 if tier == "quick" else 9, labels=draw(st.booleans()),
                                feeders=["cpp", "cpp", "cpm", "eg"]))
    opts = draw(genheat.heat_options(modes=("sequential", "bidirectional")))
    return {"recipe": rec, "options": opts}


def hc_mode(row):
    has = lambda c: not (isinstance(row[c], float) and math.isnan(row[c])) and row[c] is not None
    mf, q, dt, tr = has("controlled_mdot_kg_per_s"), has("qext_w"), has("deltat_k"), has("treturn_k")
    if mf and q:
        return "mf_q"
    if mf and dt:
        return "mf_dt"
    if mf and tr:
        return "mf_tr"
    if q and dt:
        return "q_dt"
    if q and tr:
        return "q_tr"
    return "?"


def evaluate(case):
    rec, opts = case["recipe"], case["options"]
    net = build(rec)
    r = run_thermal(net, opts)
    if not r.ok:
        return Outcome(discard=r.status)
    fl = RefFluid.get(rec["fluid"])
    cp = fl.heat_capacity
    f = []
    bidir = opts["mode"] == "bidirectional"
    labels = {"mode:" + opts["mode"], "feeder:" + rec.get("meta", {}).get("feeder", "?")}
    sts = {(s["table"], s["index"]): s for s in streams(net)}
    modes = set()
    neg_q = False
    worst = 0.0

    def duty(s):
        return s["m"] * (cp(s["t_in"]) + cp(s["t_out"])) / 2 * (s["t_in"] - s["t_out"])

    def cp_spread(s):
        a, b = cp(s["t_in"]), cp(s["t_out"])
        # cp is piecewise linear: extremes at the ends or at a table point in between - sample
        lo, hi = min(s["t_in"], s["t_out"]), max(s["t_in"], s["t_out"])
        vals = [cp(lo + (hi - lo) * k / 8) for k in range(9)]
        return s["m"] * (max(vals) - min(vals)) * abs(s["t_in"] - s["t_out"])

    # ---- heat exchangers
    if "heat_exchanger" in net and len(net.heat_exchanger):
        for idx in net.heat_exchanger.index:
            s = sts.get(("heat_exchanger", int(idx)))
            if s is None or s["m"] < 1e-8:
                continue
            q = float(net.heat_exchanger.at[idx, "qext_w"])
            neg_q = neg_q or q < 0
            err = abs(duty(s) - q)
            worst = max(worst, err)
            if not err <= 1e-4 + 1e-8 * abs(q):
                f.append(Finding("duty", "C11.duty.heat_exchanger", {"heat_exchanger": int(idx), "qext_w": q, "mdot_cp_dT": duty(s),
                                                                     "stream": s}))
    # ---- heat consumers
    if "heat_consumer" in net and len(net.heat_consumer):
        for idx in net.heat_consumer.index:
            s = sts.get(("heat_consumer", int(idx)))
            if s is None or s["m"] < 1e-8:
                # a supplied, in-service consumer with a prescribed mass flow must carry it (also when the reported flow is zero)
                row = net.heat_consumer.loc[idx]
                m_rep = float(net.res_heat_consumer.at[idx, "mdot_from_kg_per_s"])
                if bool(row.in_service) and hc_mode(row).startswith("mf_") and np.isfinite(m_rep) and \
                        not abs(m_rep - row.controlled_mdot_kg_per_s) <= 1e-6 * max(1.0, abs(row.controlled_mdot_kg_per_s)):
                    f.append(Finding("setpoint", "C11.setpoint.%s.mdot" % hc_mode(row) + ("" if bidir else ".sequential"),
                                     {"heat_consumer": int(idx), "mode": hc_mode(row), "quantity": "mdot", "reported": m_rep,
                                      "set": float(row.controlled_mdot_kg_per_s)}))
                continue
            row = net.heat_consumer.loc[idx]
            res = net.res_heat_consumer.loc[idx]
            mode = hc_mode(row)
            modes.add(mode)
            labels.add("hc:" + mode)
            q_rep = float(res.qext_w)
            neg_q = neg_q or q_rep < 0
            d = duty(s)
            err = abs(d - q_rep)
            if not err <= 1e-4 + 1e-8 * abs(q_rep):
                sig = "C11.duty.heat_consumer." + mode + ("" if bidir else ".sequential")
                f.append(Finding("duty", sig, {"heat_consumer": int(idx), "mode": mode, "reported_qext_w": q_rep, "mdot_cp_dT": d,
                                               "stream": s}))
            else:
                worst = max(worst, err)
            if not abs(float(res.deltat_k) - (s["t_in"] - s["t_out"])) <= 1e-9:
                f.append(Finding("duty", "C11.deltat_column", {"heat_consumer": int(idx), "deltat_k": float(res.deltat_k),
                                                                "t_in-t_out": s["t_in"] - s["t_out"]}))
            mdot_prescribed = mode.startswith("mf_")
            if mdot_prescribed or bidir:
                chk = []
                if mode in ("mf_q", "mf_dt", "mf_tr"):
                    chk.append(("mdot", s["signed_m"], row.controlled_mdot_kg_per_s, 1e-6))  # kept, not re-imposed: drifts by solver round-off
                if mode in ("mf_q", "q_dt", "q_tr"):
                    chk.append(("qext_w", q_rep, row.qext_w, 1e-6))
                if mode in ("mf_dt", "q_dt"):
                    chk.append(("deltat_k", float(res.deltat_k), row.deltat_k, 1e-6))
                if mode in ("mf_tr", "q_tr"):
                    chk.append(("treturn_k", s["t_out"], row.treturn_k, 1e-6))
                for name, got, want, tol in chk:
                    if not abs(got - want) <= tol * max(1.0, abs(want)):
                        f.append(Finding("setpoint", "C11.setpoint.%s.%s" % (mode, name) + ("" if bidir else ".sequential"),
                                         {"heat_consumer": int(idx), "mode": mode, "quantity": name, "reported": got, "set": want}))
    # ---- loop closure
    pumps = [(t, idx) for t in ("circ_pump_pressure", "circ_pump_mass") if t in net and len(net[t]) for idx in net[t].index
             if net[t].at[idx, "in_service"]]
    n_eg = len(net.ext_grid[net.ext_grid.in_service]) if "ext_grid" in net and len(net.ext_grid) else 0
    if rec.get("meta", {}).get("feeder2"):
        labels.add("second_feeder:" + rec["meta"]["feeder2"])
    # every pump: the heat it reports is the heat it adds to its own stream (return junction temperature -> its outlet
    # temperature), up to the heat-capacity discretisation
    pump_streams = []
    for t, idx in pumps:
        s = sts.get((t, int(idx)))
        if s is None or s["m"] <= 1e-8:
            continue
        pump_streams.append((t, idx, s))
        q_pump = float(net["res_" + t].at[idx, "qext_w"])
        added = -duty(s)
        if not abs(q_pump - added) <= cp_spread(s) + 1e-6 * abs(added) + 1e-3:
            f.append(Finding("pump_duty", "C11.pump_duty", {"pump": [t, int(idx)], "reported_qext_w": q_pump,
                                                            "mdot_cp_dT_of_its_stream": added, "stream": s}))
        if abs(tj_of(net, s["down"]) - s["t_out"]) > 1e-3:
            labels.add("pump_flow_junction_is_mixing_node")
    has_mass_exchange = any(t in net and len(net[t]) and net[t].in_service.any() for t in ("sink", "source", "mass_storage"))
    if pump_streams and len(pump_streams) == len(pumps) and n_eg == 0 and not has_mass_exchange:
        q_pumps = sum(float(net["res_" + t].at[idx, "qext_w"]) for t, idx, _ in pump_streams)
        taken = 0.0
        bound = sum(cp_spread(s) for _, _, s in pump_streams)
        for key, e in sts.items():
            if key[0] in ("circ_pump_pressure", "circ_pump_mass") or e["m"] < 1e-10:
                continue
            taken += duty(e)
            bound += cp_spread(e)
        labels.add("loop_closure" if len(pump_streams) == 1 else "loop_closure_several_pumps")
        if not abs(q_pumps - taken) <= bound + 1e-6 * abs(taken) + 1e-3:
            f.append(Finding("loop_closure", "C11.loop_closure", {"pumps_qext_w": q_pumps, "sum_taken_out_w": taken,
                                                                   "discretisation_bound_w": bound, "n_pumps": len(pump_streams),
                                                                   "pump_stream": pump_streams[0][2]}))
    nontriv = len(modes) >= 2 or neg_q or bidir
    out = Outcome(findings=f, labels=labels | ({"negative_q"} if neg_q else set()), nontrivial=nontriv,
                  sample={"recipe": abbreviate(rec), "options": opts, "consumer_modes": sorted(modes)})
    out.worst = worst
    return out


def tj_of(net, j):
    return float(net.res_junction.t_k.at[j])


def run_shard(coll, tier, seed, shard, nshards, known):
    def ev(case):
        out = evaluate(case)
        if not out.discard:
            coll.maximum("max_duty_identity_error_w", out.worst)
        return out
    run_given(case_strategy(tier), ev, EX[tier], derive_seed("C11", seed, shard), coll, known)


def replay(case):
    return evaluate(case)

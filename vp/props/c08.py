"""C08 - the solution is independent of initial guesses and of the damping strategy.

Metamorphic: the same physical network is solved from different start values (pn_bar scaled per
junction; tfluid_k shifted where it only serves as start value) and with constant / automatic
damping; every pair of runs that both converge must agree within the solver tolerance.
"""
from __future__ import annotations

import copy

import numpy as np
from hypothesis import strategies as st

from .. import gen, genheat
from ..compare import compare_nets
from ..recipe import abbreviate, build, solve
from ..runner import Finding, Outcome, derive_seed, run_given

RULE = ("cases = (recipe, per-junction factors for pn_bar in 0.3..3, per-junction shifts of tfluid_k in +-40 K, options). Hydraulic "
        "nets: runs {constant, automatic, constant from perturbed pn_bar, automatic from perturbed pn_bar}. Heating nets: "
        "bidirectional mode, sequential mode with a constant-property fluid, and mode='heat' from one fixed hydraulic solution "
        "- the only situations in which tfluid_k is a pure start value - with perturbed pn_bar and tfluid_k. Non-trivial = at "
        "least two runs converged, the start differs by > 20 % / > 10 K on a junction and a pipe carries flow; the number of "
        "cases where the damping strategies needed different iteration counts is reported. Distinct = distinct case hash.")
ASSUMPTIONS = ["heat consumers specified by (Q, T_ret) are only generated for the bidirectional variant (sequential mode derives "
               "their mass flow from the start temperatures - see C11 known finding)",
               "in mode='hydraulics' and in sequential mode with a library fluid tfluid_k parametrises the fluid properties of the "
               "hydraulic stage and is NOT varied", "a run that does not converge from a far start is a discard, not a violation",
               "agreement tolerance: 1e-6 bar, 1e-5 K, 1e-6 of the largest flow (tight solver tolerances)"]
EX = {"quick": 30, "thorough": 1200}


@st.composite
def case_strategy(draw, tier):
    kind = draw(st.sampled_from(["hyd", "hyd", "bidirectional", "seq_const", "heat_mode"]))
    if kind == "hyd":
        rec, opts = draw(gen.hyd_case(max_n=8 if tier == "quick" else 20, tight=True))
        opts["mode"] = "hydraulics"
        # uniqueness of the hydraulic solution needs a monotone pressure-loss law: Swamee-Jain has a pole at Re ~ 7 and
        # Colebrook-White is only defined for turbulent flow, so the start-value relation is asserted for Nikuradse
        opts["friction_model"] = "nikuradse"
        opts.pop("nonlinear_method", None)
    else:
        # sequential mode: a consumer specified by Q and T_ret gets its mass flow from the start temperatures in the
        # hydraulic stage, so tfluid_k is not a pure start value there -> not generated for the sequential variants
        modes = None if kind == "bidirectional" else [m for m in genheat.CONSUMER_MODES if m != "q_tr"]
        rec = draw(genheat.heat_net(max_n=4 if tier == "quick" else 7, const_fluid=(kind == "seq_const"), modes=modes,
                                    booster=draw(st.booleans())))
        opts = draw(genheat.heat_options(modes=("bidirectional",) if kind == "bidirectional" else ("sequential",)))
        opts.pop("nonlinear_method", None)
    n = len(rec["junction"])
    pf = draw(st.lists(st.one_of(st.just(1.0), st.floats(0.3, 3.0)), min_size=n, max_size=n))
    dt = draw(st.lists(st.one_of(st.just(0.0), st.floats(-40.0, 40.0)), min_size=n, max_size=n))
    return {"kind": kind, "recipe": rec, "options": opts, "p_factors": pf, "t_shifts": dt}


def perturbed(rec, pf, dt, vary_t):
    out = copy.deepcopy(rec)
    for j, a, b in zip(out["junction"], pf, dt):
        j["pn_bar"] = j["pn_bar"] * a
        if vary_t:
            j["tfluid_k"] = j["tfluid_k"] + b
    return out


def evaluate(case):
    kind, rec, opts = case["kind"], case["recipe"], case["options"]
    vary_t = kind != "hyd"
    rec2 = perturbed(rec, case["p_factors"], case["t_shifts"], vary_t)
    runs = []
    sol = None
    if kind == "heat_mode":
        base = build(rec)
        r0 = solve(base, **dict(opts, mode="hydraulics"))
        if not r0.ok:
            return Outcome(discard="base_hydraulics_" + r0.status)
        from .c05 import _sol_vec
        sol = _sol_vec(base)
    variants = [("constant", rec), ("automatic", rec), ("constant_perturbed", rec2)]
    if kind == "hyd":
        variants.append(("automatic_perturbed", rec2))
    for name, r_ in variants:
        net = build(r_)
        o = dict(opts, nonlinear_method="automatic" if name.startswith("automatic") else "constant")
        if kind == "heat_mode":
            o["mode"] = "heat"
            import pandapipes as pp
            try:
                # a hydraulic run on this object first (sets the bookkeeping flag); the given solution is the fixed one
                pp.pipeflow(net, **dict(o, mode="hydraulics", nonlinear_method="constant"))
                pp.pipeflow(net, sol_vec=sol, **o)
                status = "ok"
            except Exception as e:
                status = type(e).__name__
            it = net.get("_internal_results", {}).get("iterations_heat")
        else:
            s = solve(net, **o)
            status = s.status
            ir = net.get("_internal_results", {})
            it = ir.get("iterations_hydraulics") or ir.get("iterations_bidirectional") or ir.get("iterations_heat")
        runs.append((name, net, status, it))
    # a gas net also has a mirror solution with negative absolute pressures; pipeflow returns it with a UserWarning
    # ("results are physically incorrect as pressure is negative") - such a run does not count as converged solution
    from ..refphys import p_amb
    chk = []
    for name, net, status, it in runs:
        if status == "ok":
            pj = net.res_junction.p_bar
            pabs = pj.values + np.array([p_amb(h) for h in net.junction.height_m.values])
            if np.nanmin(pabs) < 0:
                status = "negative_pressure_warned"
        chk.append((name, net, status, it))
    runs = chk
    ok = [r for r in runs if r[2] == "ok"]
    if len(ok) < 2:
        return Outcome(discard="fewer_than_two_converged")
    f = []
    skip = ()
    if kind == "heat_mode":
        skip = ()   # hydraulic columns come from the identical sol_vec
    # The solver stops when the last Newton STEP is below the tolerance. Where it converges quadratically that bounds the
    # distance to the solution; nets with lagged couplings (compressor / pump lifts, stagnant branches) converge linearly
    # over 50-100 iterations and two converged runs were seen 1e-7 bar / 1e-5 relative in flow apart while both satisfy the
    # governing equations to 1e-7 bar (C02 / C03 oracles). "Beyond the solver tolerance" is therefore judged with a wider
    # band for such slowly converging cases.
    slow = any((it or 0) > 40 for _, _, _, it in ok)
    tolkw = dict(ptol=1e-6, ttol=1e-5, mrel=1e-6, drel=1e-5, mabs=1e-8, mfloor=5e-9) if not slow else \
        dict(ptol=1e-5, ttol=1e-4, mrel=1e-4, drel=1e-3, mabs=1e-6, mfloor=5e-8)
    for (na, a, _, _), (nb, b, _, _) in zip(ok[:1] * (len(ok) - 1), ok[1:]):
        diffs = compare_nets(a, b, skip_cols=skip, **tolkw)   # branches without flow converge only linearly: |mdot| <= ~1.5e-9 each
        for d in diffs[:2]:
            f.append(Finding("agreement", "C08.agreement.%s.%s.%s" % (kind, d["table"], d["column"]), dict(d, runs=[na, nb])))
    if f:
        # known finding: the lift of pumps / compressors is discontinuous at zero flow (curve value for mdot >= 0, zero
        # for reverse flow), so a net can have a forward-flow and a bypass solution; which one Newton reaches depends on
        # start values and damping. Narrow signature: some pump / compressor carries zero or reverse flow in one run.
        lift0 = False
        for _, n_, _, _ in ok:
            for t in ("pump", "compressor"):
                if t in n_ and len(n_[t]) and (n_["res_" + t].mdot_from_kg_per_s.fillna(1.0) <= 1e-9).any():
                    lift0 = True
        if lift0:
            for fi in f:
                fi.signature = "C08.agreement.nonunique_pump_compressor_lift"
    far = any(abs(a - 1.0) > 0.2 for a in case["p_factors"]) or (vary_t and any(abs(b) > 10 for b in case["t_shifts"]))
    flowing = any((ok[0][1]["res_" + t].mdot_from_kg_per_s.abs() > 1e-6).any() for t in ("pipe",) if t in ok[0][1] and len(ok[0][1][t]))
    its = {r[0]: r[3] for r in ok}
    labels = {"kind:" + kind, "n_ok:%d" % len(ok)} | ({"slow_linear_convergence"} if slow else set())
    if "constant" in its and "automatic" in its and its["constant"] != its["automatic"]:
        labels.add("damping_different_iterations")
    if any(r[2] != "ok" for r in runs):
        labels.add("some_start_failed")
    return Outcome(findings=f, labels=labels, nontrivial=far and flowing and any(n.endswith("perturbed") for n, *_ in ok),
                   sample={"kind": kind, "recipe": abbreviate(rec), "p_factors": case["p_factors"], "t_shifts": case["t_shifts"],
                           "iterations": its})


def run_shard(coll, tier, seed, shard, nshards, known):
    run_given(case_strategy(tier), evaluate, EX[tier], derive_seed("C08", seed, shard), coll, known)


def replay(case):
    return evaluate(case)

"""C20 - multi-energy coupling conserves energy and equals the decoupled calculation."""
from __future__ import annotations

import copy
import os

import numpy as np
import pandas as pd
from hypothesis import strategies as st

from .. import gen
from ..recipe import abbreviate, build
from ..refphys import parse_txt, pp_dir
from ..runner import Finding, Outcome, derive_seed, run_given

RULE = ("cases = multinet of pandapower's example_simple + 1..2 generated gas nets (fluids with a heating value), 1..4 coupling "
        "controllers out of P2G, G2P (power-led and gas-led), G2G with scalar or vector element indices, efficiencies 0.05..1, "
        "scalings of the coupled elements, orders / levels, optionally a chain (G2P power-led feeding a G2G), optionally a gas net that is "
        "infeasible from the start or becomes infeasible through a written value (with and without continue_on_divergence), run through run_control or a 2..4 step time series with load / sink profiles. Oracles: written value "
        "= scaled input * efficiency converted with the heating value parsed from the fluid file; every member net equals a "
        "stand-alone pipeflow / runpp on a copy carrying the written values; a failing member net must not let the coupled run "
        "return normally. Non-trivial = >= 2 controllers of different kind, or a vector controller, or a time series, or a chain. "
        "Distinct = distinct case hash.")
ASSUMPTIONS = ["heating value: properties/<fluid>/higher_heating_value.txt in kWh/kg; kg/s = MW * 1000 / (hhv * 3600)",
               "the written quantity is the raw table value of the target element (its own scaling is applied by the target net)",
               "pandapower's runpp / example_simple / control loop are the trusted power side"]
EX = {"quick": 5, "thorough": 300}
FLUIDS = ["hgas", "lgas", "hydrogen", "methane", "biomethane_pure", "biomethane_treated"]


def hhv(fluid):
    return parse_txt(os.path.join(pp_dir(), "properties", fluid, "higher_heating_value.txt"))[0][0]


@st.composite
def case_strategy(draw, tier):
    ngas = draw(st.sampled_from([1, 1, 2]))
    gas = []
    for _ in range(ngas):
        rec = draw(gen.hyd_net(max_n=5, min_n=3, fluids=FLUIDS, gases_only=True, allow_ctrl=False, allow_oos=False, allow_pi=False,
                               labels=False, sectors=False, zero_load_p=0.0))
        gas.append(rec)
    f = lambda lo, hi: st.floats(lo, hi, allow_nan=False, allow_subnormal=False)
    ctrls = []
    n = draw(st.integers(1, 4))
    for _ in range(n):
        kind = draw(st.sampled_from(["p2g", "g2p_power_led", "g2p_gas_led", "g2g"] if ngas == 2 else ["p2g", "g2p_power_led", "g2p_gas_led"]))
        vec = draw(st.integers(0, 2)) == 0
        k = draw(st.sampled_from([2, 2, 3])) if vec else 1
        ctrls.append({"kind": kind, "vector": vec, "eff": draw(f(0.05, 1.0)), "values": [draw(f(0.05, 3.0)) for _ in range(k)],
                      "scalings": [draw(st.sampled_from([1.0, 1.0, 0.5, 2.0])) for _ in range(k)], "order": draw(st.integers(0, 2)),
                      "level": draw(st.sampled_from([0, 0, 1])), "gas": draw(st.integers(0, ngas - 1)),
                      "jsel": [draw(st.integers(0, 20)) for _ in range(k)],
                      "perm": draw(st.permutations(list(range(k))))})
    chain = ngas == 2 and draw(st.integers(0, 3)) == 0
    ts = draw(st.integers(0, 2)) == 0
    prof = None
    if ts:
        steps = draw(st.integers(2, 4))
        prof = [[draw(f(0.005, 0.1)) for _ in range(steps)] for _ in range(2)]
    return {"gas": gas, "controllers": ctrls, "chain": chain, "chain_eff": [draw(f(0.2, 1.0)), draw(f(0.2, 1.0))],
            "timeseries": prof, "infeasible": draw(st.sampled_from([0] * 8 + [1, 2, 2])), "cod": draw(st.booleans()),
            # solver options handed to the coupled run as keyword arguments: every member calculation must use them
            "solver_kwargs": draw(st.sampled_from([{}, {}, {"friction_model": "swamee-jain"}, {"friction_model": "colebrook"},
                                                   {"use_numba": False}]))}


def evaluate(case):
    import pandapipes as pp
    import pandapower as ppow
    from pandapower import networks as e_nw
    from pandapower.control import ConstControl
    from pandapower.timeseries import DFData, OutputWriter
    from pandapipes.multinet.control.controller.multinet_control import (G2PControlMultiEnergy, GasToGasConversion,
                                                                         P2GControlMultiEnergy)
    from pandapipes.multinet.control.run_control_multinet import run_control
    from pandapipes.multinet.create_multinet import add_nets_to_multinet, create_empty_multinet
    from pandapipes.multinet.timeseries.run_time_series_multinet import run_timeseries
    pw = e_nw.example_simple()
    gnets = [build(r) for r in case["gas"]]
    names = ["gas", "gas2"][:len(gnets)]
    mn = create_empty_multinet("mn")
    add_nets_to_multinet(mn, power=pw, **dict(zip(names, gnets)))
    hh = [hhv(r["fluid"]) for r in case["gas"]]
    buses = [5, 6, 3, 4]
    expect = []       # (description, getter of actual, function computing expected)
    kinds = set()
    first_load = None
    first_sink = None

    def jpick(g, sel):
        js = list(gnets[g].junction.index)
        return int(js[1 + sel % (len(js) - 1)]) if len(js) > 1 else int(js[0])

    for ci, c in enumerate(case["controllers"]):
        g = c["gas"]
        gnet, gname = gnets[g], names[g]
        k = len(c["values"])
        kinds.add(c["kind"])
        kw = dict(order=c["order"], level=c["level"])
        if c["kind"] == "p2g":
            li = [int(ppow.create_load(pw, buses[(ci + i) % 4], p_mw=c["values"][i] * 0.03, scaling=c["scalings"][i])) for i in range(k)]
            si = [int(pp.create_source(gnet, jpick(g, c["jsel"][i]), 0.0)) for i in range(k)]
            first_load = first_load if first_load is not None else li[0]
            li, si = [li[i] for i in c["perm"]], [si[i] for i in c["perm"]]
            P2GControlMultiEnergy(mn, li if c["vector"] else li[0], si if c["vector"] else si[0], c["eff"], name_gas_net=gname, **kw)
            for a, b in zip(li, si):
                expect.append(("p2g", (gname, "source", b, "mdot_kg_per_s"),
                               lambda a=a, e=c["eff"], h=hh[g]: pw.load.at[a, "p_mw"] * pw.load.at[a, "scaling"] * e * 1000.0 / (h * 3600.0)))
        elif c["kind"] == "g2p_power_led":
            gi = [int(ppow.create_sgen(pw, buses[(ci + i) % 4], p_mw=c["values"][i] * 0.03, scaling=c["scalings"][i])) for i in range(k)]
            ki = [int(pp.create_sink(gnet, jpick(g, c["jsel"][i]), 0.0)) for i in range(k)]
            gi, ki = [gi[i] for i in c["perm"]], [ki[i] for i in c["perm"]]
            G2PControlMultiEnergy(mn, gi if c["vector"] else gi[0], ki if c["vector"] else ki[0], c["eff"], name_gas_net=gname,
                                  element_type_power="sgen", calc_gas_from_power=True, **kw)
            for a, b in zip(gi, ki):
                expect.append(("g2p_power_led", (gname, "sink", b, "mdot_kg_per_s"),
                               lambda a=a, e=c["eff"], h=hh[g]: pw.sgen.at[a, "p_mw"] * pw.sgen.at[a, "scaling"] / (h * 3.6 * e)))
        elif c["kind"] == "g2p_gas_led":
            gi = [int(ppow.create_sgen(pw, buses[(ci + i) % 4], p_mw=0.0)) for i in range(k)]
            ki = [int(pp.create_sink(gnet, jpick(g, c["jsel"][i]), c["values"][i] * 0.01, scaling=c["scalings"][i])) for i in range(k)]
            first_sink = first_sink if first_sink is not None else (g, ki[0])
            gi, ki = [gi[i] for i in c["perm"]], [ki[i] for i in c["perm"]]
            G2PControlMultiEnergy(mn, gi if c["vector"] else gi[0], ki if c["vector"] else ki[0], c["eff"], name_gas_net=gname,
                                  element_type_power="sgen", calc_gas_from_power=False, **kw)
            for a, b in zip(gi, ki):
                expect.append(("g2p_gas_led", ("power", "sgen", a, "p_mw"),
                               lambda b=b, e=c["eff"], h=hh[g], gnet=gnet: gnet.sink.at[b, "mdot_kg_per_s"] * gnet.sink.at[b, "scaling"] * h * 3.6 * e))
        else:  # g2g from net g to the other one
            g2 = 1 - g
            ki = [int(pp.create_sink(gnet, jpick(g, c["jsel"][i]), c["values"][i] * 0.01, scaling=c["scalings"][i])) for i in range(k)]
            si = [int(pp.create_source(gnets[g2], jpick(g2, c["jsel"][i]), 0.0)) for i in range(k)]
            first_sink = first_sink if first_sink is not None else (g, ki[0])
            ki, si = [ki[i] for i in c["perm"]], [si[i] for i in c["perm"]]
            GasToGasConversion(mn, ki if c["vector"] else ki[0], si if c["vector"] else si[0], c["eff"], name_gas_net_from=gname,
                               name_gas_net_to=names[g2], **kw)
            for a, b in zip(ki, si):
                expect.append(("g2g", (names[g2], "source", b, "mdot_kg_per_s"),
                               lambda a=a, e=c["eff"], gnet=gnet, h1=hh[g], h2=hh[g2]: gnet.sink.at[a, "mdot_kg_per_s"] * gnet.sink.at[a, "scaling"] * h1 / h2 * e))
    if case["chain"]:
        # power -> gas sink (G2P power-led, order 0) -> source in the second gas net (G2G, order 1)
        e1, e2 = case["chain_eff"]
        sg = int(ppow.create_sgen(pw, 6, p_mw=0.07, scaling=0.5))
        sk = int(pp.create_sink(gnets[0], jpick(0, 3), 0.0, scaling=2.0))
        so = int(pp.create_source(gnets[1], jpick(1, 5), 0.0))
        G2PControlMultiEnergy(mn, sg, sk, e1, name_gas_net="gas", element_type_power="sgen", calc_gas_from_power=True, order=0)
        GasToGasConversion(mn, sk, so, e2, name_gas_net_from="gas", name_gas_net_to="gas2", order=1)
        expect.append(("chain", ("gas2", "source", so, "mdot_kg_per_s"),
                       lambda: (0.07 * 0.5 / (hh[0] * 3.6 * e1)) * 2.0 * hh[0] / hh[1] * e2))
        kinds.add("chain")
    if case["infeasible"] == 1:
        js = list(gnets[0].junction.index)
        pp.create_sink(gnets[0], int(js[-1]), 1e6)
    elif case["infeasible"] == 2:
        # feasible start; the power net fails only with the value written by a controller (absurd efficiency as fault injection)
        sg = int(ppow.create_sgen(pw, 5, p_mw=0.0))
        sk = int(pp.create_sink(gnets[0], jpick(0, 1), 1e-3))
        G2PControlMultiEnergy(mn, sg, sk, 1e9, name_gas_net="gas", element_type_power="sgen", calc_gas_from_power=False,
                              order=case["controllers"][0]["order"], level=case["controllers"][0]["level"])
    for g_ in gnets:
        pp.set_user_pf_options(g_, iter=100)
    nets = {"power": pw, **dict(zip(names, gnets))}
    f = []
    skw = dict(case.get("solver_kwargs") or {})
    labels = {"ngas:%d" % len(gnets)} | {"kind:" + k_ for k_ in kinds} | {"solver_kwargs:" + ",".join(sorted(skw)) if skw else "solver_kwargs:none"}
    prof = case["timeseries"]
    steps = None
    ows = {}
    if prof is not None and (first_load is not None or first_sink is not None):
        steps = len(prof[0])
        df = pd.DataFrame({"a": prof[0], "b": [0.01 * v for v in prof[1]]})
        if first_load is not None:
            ConstControl(pw, "load", "p_mw", element_index=[first_load], data_source=DFData(df), profile_name=["a"], order=-1)
            labels.add("timeseries:load_profile")
        if first_sink is not None:
            ConstControl(gnets[first_sink[0]], "sink", "mdot_kg_per_s", element_index=[first_sink[1]], data_source=DFData(df),
                         profile_name=["b"], order=-1)
            labels.add("timeseries:sink_profile")
        for nm_, n_ in nets.items():
            ows[nm_] = OutputWriter(n_, range(steps), output_path=None,
                                    log_variables=[("res_junction", "p_bar"), ("res_pipe", "mdot_from_kg_per_s")] if n_ is not pw else [("res_bus", "vm_pu")])
        labels.add("timeseries")
    try:
        if steps:
            run_timeseries(mn, time_steps=range(steps), verbose=False, **skw)
        else:
            run_control(mn, ctrl_variables={"nets": {n_: {"continue_on_divergence": True} for n_ in nets}} if case.get("cod") else None,
                        **skw)
        status = "ok"
        exc = None
    except Exception as e:
        status, exc = type(e).__name__, e
    # stand-alone verdicts with the values now in the tables
    alone = {}
    for name, n_ in nets.items():
        c_ = copy.deepcopy(n_)
        if "controller" in c_:
            c_.controller = c_.controller.iloc[0:0]
        try:
            if name == "power":
                ppow.runpp(c_)
            else:
                pp.pipeflow(c_, **skw)
            alone[name] = ("ok", c_)
        except Exception as e:
            alone[name] = (type(e).__name__, c_)
    any_fail = any(v[0] != "ok" for v in alone.values())
    labels.add("status:" + status)
    if case.get("cod") and not steps:
        labels.add("continue_on_divergence")
    if any_fail:
        labels.add("member_net_fails")
        if case.get("cod") and not steps:
            labels.add("member_net_fails+continue_on_divergence")
        if status == "ok":
            f.append(Finding("convergence", "C20.convergence.returned_although_member_failed",
                             {"stand_alone": {k_: v[0] for k_, v in alone.items()}}))
        elif status not in ("PipeflowNotConverged", "LoadflowNotConverged", "NetCalculationNotConverged", "ControllerNotConverged"):
            from ..recipe import exc_sig
            f.append(Finding("convergence", "C20.convergence.crash_instead_of_report." + exc_sig(exc), {"exc": repr(exc)[:300]}))
        return Outcome(findings=f, labels=labels, nontrivial=True, sample=_sample(case))
    if status != "ok":
        from ..recipe import exc_sig
        f.append(Finding("convergence", "C20.coupled_run_raises." + exc_sig(exc), {"exc": repr(exc)[:300]}))
        return Outcome(findings=f, labels=labels, nontrivial=True, sample=_sample(case))
    # (1) written values
    for what, (nname, tbl, idx, col), fn in expect:
        got = float(nets[nname][tbl].at[idx, col])
        exp = float(fn())
        if not abs(got - exp) <= 1e-12 * max(abs(got), abs(exp)) + 1e-15:
            f.append(Finding("conversion", "C20.conversion." + what, {"net": nname, "table": tbl, "index": idx, "written": got, "expected": exp}))
    # (3) members equal the stand-alone calculation
    for name, n_ in nets.items():
        c_ = alone[name][1]
        if name == "power":
            if not np.allclose(c_.res_bus.vm_pu.values, n_.res_bus.vm_pu.values, rtol=0, atol=1e-10, equal_nan=True) or \
                    not np.allclose(c_.res_line.p_from_mw.values, n_.res_line.p_from_mw.values, rtol=0, atol=1e-8, equal_nan=True):
                f.append(Finding("decoupled", "C20.decoupled.power", {}))
        else:
            for t in [k_ for k_ in n_.keys() if k_.startswith("res_") and hasattr(n_[k_], "columns")]:
                if t in c_ and not np.array_equal(n_[t].values.astype(float), c_[t].values.astype(float), equal_nan=True):
                    f.append(Finding("decoupled", "C20.decoupled.gas." + t, {"net": name}))
                    break
    # (4) time series: every logged step equals a stand-alone calculation with that step's written values
    if steps and not f:
        for s_ in range(steps):
            if first_load is not None:
                pw.load.at[first_load, "p_mw"] = prof[0][s_]
            if first_sink is not None:
                gnets[first_sink[0]].sink.at[first_sink[1], "mdot_kg_per_s"] = 0.01 * prof[1][s_]
            for what, (nname, tbl, idx, col), fn in expect:
                nets[nname][tbl].at[idx, col] = float(fn())
            for name, n_ in nets.items():
                c_ = copy.deepcopy(n_)
                c_.controller = c_.controller.iloc[0:0]
                try:
                    if name == "power":
                        ppow.runpp(c_)
                        pairs = [("res_bus.vm_pu", c_.res_bus.vm_pu.values, 1e-10)]
                    else:
                        pp.pipeflow(c_, **skw)
                        # the step's written values are recomputed by the reference formula (may differ by an ulp from the code's)
                        pairs = [("res_junction.p_bar", c_.res_junction.p_bar.values, 1e-9),
                                 ("res_pipe.mdot_from_kg_per_s", c_.res_pipe.mdot_from_kg_per_s.values, 1e-9)]
                except Exception as e:
                    f.append(Finding("timeseries", "C20.timeseries.standalone_fails", {"step": s_, "net": name, "exc": repr(e)[:200]}))
                    break
                for key, exp, tol in pairs:
                    got = np.asarray(ows[name].output[key].loc[s_].values, dtype=float)
                    # stagnant pipes carry round-off flows of ~1e-11 kg/s that change with the last bit of the written value
                    ok = got.shape == exp.shape and np.allclose(got, exp, rtol=tol, atol=1e-9 if "mdot" in key else tol * 1e-3,
                                                                equal_nan=True)
                    if not ok:
                        f.append(Finding("timeseries", "C20.timeseries.logged_step." + ("power" if name == "power" else "gas"),
                                         {"step": s_, "net": name, "variable": key, "logged": list(got)[:6], "standalone": list(exp)[:6]}))
                        break
                if f:
                    break
            if f:
                break
    if any(c["vector"] and list(c["perm"]) != sorted(c["perm"]) for c in case["controllers"]):
        labels.add("vector_indices_not_ascending")
    nontriv = len(kinds - {"chain"}) >= 2 or any(c["vector"] for c in case["controllers"]) or steps or case["chain"]
    return Outcome(findings=f, labels=labels, nontrivial=bool(nontriv), sample=_sample(case))


def warmup():
    import pandapower as ppow
    from pandapower import networks as e_nw
    ppow.runpp(e_nw.example_simple())


def _sample(case):
    return {"gas": [abbreviate(r) for r in case["gas"]], "controllers": case["controllers"], "chain": case["chain"],
            "timeseries": case["timeseries"], "infeasible": case["infeasible"], "cod": case.get("cod")}


def run_shard(coll, tier, seed, shard, nshards, known):
    run_given(case_strategy(tier), evaluate, EX[tier], derive_seed("C20", seed, shard), coll, known, shrink_s=40)


def replay(case):
    return evaluate(case)

"""C06 - results do not depend on labels, row order or creation order.

Metamorphic: recipe R and tau(R) (injective relabelling of every table, row permutations, creation
order permutation, sector ALL <-> NONE which changes the component order) are built from scratch
through the public API and solved with the same options; results joined on element identity agree.
"""
from __future__ import annotations

import copy

from hypothesis import strategies as st

from .. import gen, genheat
from ..compare import compare_nets
from ..recipe import abbreviate, build, solve
from ..runner import Finding, Outcome, derive_seed, run_given

RULE = ("cases = (recipe R with contiguous labels, transform tau, options): R from the hydraulic / heating generators (out-of-service "
        "elements, multi-section pipes, pi valves, several loads per junction); tau draws per table an injective label map "
        "(shuffled, sparse, >= 1e5, mixed with max < 2*len and not), a row permutation per table, a permutation of the "
        "creation order and a sector switch all<->None. Non-trivial = tau is not the identity on a table with >= 2 rows AND "
        "the net has a multi-section pipe, an out-of-service element or a junction with >= 2 loads. Distinct = distinct "
        "(R, tau) hash.")
ASSUMPTIONS = ["labels are capped at 3e5 (lookups are dense arrays of size max+1; a resource limit, not part of the property)",
               "tight solver tolerances; cross-run comparison tolerances of DESIGN 2.3"]
EX = {"quick": 40, "thorough": 1500}


@st.composite
def case_strategy(draw, tier):
    heat = draw(st.integers(0, 3)) == 0
    if heat:
        rec = draw(genheat.heat_net(max_n=4 if tier == "quick" else 7, labels=False, allow_oos=True))
        opts = draw(genheat.heat_options())
    else:
        rec, opts = draw(gen.hyd_case(max_n=8 if tier == "quick" else 20, tight=True, labels=False, sectors=False, pi_every=3,
                                      fm_weights=(10, 1, 1)))   # cases with laminar branches under the turbulent-only models are discards
        opts["mode"] = "hydraulics"
    rec.pop("row_order", None)
    tables = {}
    for e in rec["elements"]:
        tables.setdefault(e["table"], []).append(e["index"])
    kinds = draw(st.lists(st.sampled_from(["labels", "rows", "creation", "sector"]), min_size=1, max_size=4, unique=True))
    tau = {"kinds": kinds}
    jl = [j["index"] for j in rec["junction"]]
    if "labels" in kinds:
        scheme = draw(st.sampled_from(["shuffled", "sparse", "large", "mixed", "stride", "contiguous"]))
        tau["jmap"] = dict(zip(jl, draw(gen.label_map(len(jl), scheme))))
        tau["tmaps"] = {t: dict(zip(ix, draw(gen.label_map(len(ix), draw(st.sampled_from(["shuffled", "sparse", "large", "mixed",
                                                                                             "stride", "stride"]))))))
                        for t, ix in sorted(tables.items())}
    else:
        tau["jmap"] = {i: i for i in jl}
        tau["tmaps"] = {t: {i: i for i in ix} for t, ix in tables.items()}
    if "rows" in kinds:
        ro = {"junction": [tau["jmap"][i] for i in draw(st.permutations(jl))]}
        for t, ix in sorted(tables.items()):
            if len(ix) > 1:
                ro[t] = [tau["tmaps"][t][i] for i in draw(st.permutations(ix))]
        tau["row_order"] = ro
    if "creation" in kinds:
        tau["creation"] = list(draw(st.permutations(list(range(len(rec["elements"]))))))
    if "sector" in kinds:
        tau["sector"] = "None" if rec.get("sector", "all") != "None" else "all"
    return {"recipe": rec, "tau": _jsonable_tau(tau), "options": opts, "rows_inplace": draw(st.booleans())}


def _jsonable_tau(tau):
    out = dict(tau)
    out["jmap"] = [[k, v] for k, v in tau["jmap"].items()]
    out["tmaps"] = {t: [[k, v] for k, v in m.items()] for t, m in tau["tmaps"].items()}
    return out


def transform(rec, tau):
    jmap = {int(k): int(v) for k, v in tau["jmap"]}
    tmaps = {t: {int(k): int(v) for k, v in m} for t, m in tau["tmaps"].items()}
    out = gen.apply_label_maps(rec, jmap, tmaps)
    if tau.get("creation"):
        els = out["elements"]
        out["elements"] = gen.fix_pi_order([els[i] for i in tau["creation"] if i < len(els)] +
                                           [els[i] for i in range(len(els)) if i not in set(tau["creation"])])
    if tau.get("row_order"):
        out["row_order"] = {t: [int(i) for i in v] for t, v in tau["row_order"].items()}
    if tau.get("sector"):
        out["sector"] = tau["sector"]
    return out, jmap, tmaps


def evaluate(case):
    rec, tau, opts = case["recipe"], case["tau"], case["options"]
    rec2, jmap, tmaps = transform(rec, tau)
    if case.get("rows_inplace") and rec2.get("row_order"):
        # the rows are re-ordered on a net object that has already been calculated (the user sorts / shuffles a table of a net
        # that holds results), then it is calculated again
        ro = rec2.pop("row_order")
        na, nb = build(rec), build(rec2)
        solve(nb, **opts)
        for t, order in ro.items():
            if t in nb and len(nb[t]):
                listed = [i for i in order if i in nb[t].index]
                nb[t] = nb[t].loc[listed + [i for i in nb[t].index if i not in set(listed)]]
    else:
        na, nb = build(rec), build(rec2)
    ra, rb = solve(na, **opts), solve(nb, **opts)
    f = []
    labels = {"tau:" + k for k in tau["kinds"]} | {"mode:" + opts["mode"]} | ({"rows_reordered_on_a_calculated_net"} if case.get("rows_inplace") and "rows" in tau["kinds"] else set())
    has_lift = any(e["table"] in ("pump", "compressor") for e in rec["elements"])
    if ra.status != rb.status and has_lift:
        # pump / compressor lifts are discontinuous at zero flow; such nets can have several solutions or none that
        # Newton finds, depending on round-off. Not a statement about labels.
        return Outcome(discard="verdict_mismatch_with_pump_or_compressor")
    if ra.ok and rb.ok and has_lift:
        for n_ in (na, nb):
            for t in ("pump", "compressor"):
                if t in n_ and len(n_[t]) and (n_["res_" + t].mdot_from_kg_per_s.fillna(1.0) <= 1e-9).any():
                    return Outcome(discard="nonunique_zero_or_reverse_flow_pump")
    if ra.status != rb.status and opts.get("friction_model", "nikuradse") != "nikuradse" and "crash" not in (ra.status, rb.status):
        return Outcome(discard="verdict_mismatch_turbulent_friction_model")
    if ra.status != rb.status:
        f.append(Finding("verdict", "C06.verdict", {"original": ra.status, "transformed": rb.status,
                                                    "exc": [repr(ra.exc)[:200], repr(rb.exc)[:200]], "kinds": tau["kinds"]}))
        return Outcome(findings=f, labels=labels, nontrivial=True, sample=_sample(case))
    if not ra.ok:
        return Outcome(discard=ra.status)
    from ..compare import laminar_under_turbulent_model
    if laminar_under_turbulent_model(opts, na, nb):
        return Outcome(discard="laminar_branch_under_turbulent_only_friction_model")
    imaps = dict(tmaps)
    imaps["junction"] = jmap
    diffs = compare_nets(na, nb, index_maps=imaps)
    for d in diffs[:3]:
        f.append(Finding("results", "C06.results.%s.%s" % (d["table"], d["column"]), dict(d, kinds=tau["kinds"])))
    multi = any(e["table"] == "pipe" and e.get("sections", 1) > 1 for e in rec["elements"])
    oos = any((not e.get("in_service", True)) or e.get("opened") is False for e in rec["elements"]) or \
        any(not j.get("in_service", True) for j in rec["junction"])
    lj = {}
    for e in rec["elements"]:
        if e["table"] in ("sink", "source", "mass_storage", "ext_grid"):
            lj[(e["table"], e["junction"])] = lj.get((e["table"], e["junction"]), 0) + 1
    grouped = any(v >= 2 for v in lj.values())
    nonid = any(k != v for k, v in jmap.items()) or any(any(k != v for k, v in m.items()) for m in tmaps.values()) or \
        bool(tau.get("row_order")) or bool(tau.get("creation")) or bool(tau.get("sector"))
    for lab, on in (("multi_section", multi), ("oos", oos), ("grouped_loads", grouped)):
        if on:
            labels.add(lab)
    if max(jmap.values()) >= 99990:
        labels.add("large_index")
    return Outcome(findings=f, labels=labels, nontrivial=nonid and (multi or oos or grouped), sample=_sample(case))


def _sample(case):
    return {"recipe": abbreviate(case["recipe"]), "tau_kinds": case["tau"]["kinds"], "jmap": case["tau"]["jmap"][:8],
            "options": case["options"]}


def run_shard(coll, tier, seed, shard, nshards, known):
    run_given(case_strategy(tier), evaluate, EX[tier], derive_seed("C06", seed, shard), coll, known)


def replay(case):
    return evaluate(case)

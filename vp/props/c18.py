"""C18 - the topology graph agrees with the solver about what is connected."""
from __future__ import annotations

import heapq
import itertools

import numpy as np
from hypothesis import strategies as st

from .. import gen, genheat
from ..recipe import BRANCH_TABLES, FROM_TO, abbreviate, build, solve
from ..refmodel import _bfs, graph, hydraulic_sources, reach
from ..runner import Finding, Outcome, derive_seed, run_given

RULE = ("cases = (recipe with a consistent outage pattern: no in-service branch at an out-of-service junction; flow controllers / "
        "heat consumers only where they are no bridges; graph options: include_* / respect_status_* per component, "
        "respect_status_junctions, multi). Clauses: nodes subset of the junction index; one edge per included "
        "junction-junction branch between its junctions; no edge for junction-pipe valves, closed ones remove the pipe's edge; "
        "connected components == islands of the reference model; unsupplied_junctions + out-of-service == junctions without "
        "pressure result; three distance functions == own Dijkstra over pipe lengths. Non-trivial = >= 2 islands or an "
        "unsupplied junction or a junction-pipe valve or a parallel pair, with a non-default graph option. "
        "Distinct = distinct case hash.")
ASSUMPTIONS = ["precondition (documented): flow controllers are only used in looped networks - cases in which an active flow "
               "controller or a heat consumer is the only connection of a part are not asserted for the supply clause",
               "pressure controllers are directed in the solver and undirected in the graph: cases where this changes the "
               "supplied set are not asserted for the supply clause",
               "edge weights: pipe length in km, 0 for every other component"]
EX = {"quick": 35, "thorough": 1500}
KW = {"pipe": "pipes", "valve": "valves", "pump": "pumps", "compressor": "compressors", "press_control": "press_controls",
      "flow_control": "flow_controls", "heat_consumer": "heat_consumers", "circ_pump_mass": "mass_circ_pumps",
      "circ_pump_pressure": "pressure_circ_pumps", "heat_exchanger": "heat_exchangers"}


def make_consistent(rec):
    oos = {j["index"] for j in rec["junction"] if not j.get("in_service", True)}
    for e in rec["elements"]:
        t = e["table"]
        if t in FROM_TO:
            a, b = FROM_TO[t]
            ends = {e[a]} | ({e[b]} if not (t == "valve" and e["et"] == "pi") else set())
            if ends & oos:
                if t == "valve":
                    e["opened"] = False
                else:
                    e["in_service"] = False
        elif e["junction"] in oos:
            e["in_service"] = False
    # a pipe that is out of service makes its junction-pipe valves irrelevant; nothing to do
    return rec


@st.composite
def case_strategy(draw, tier):
    if draw(st.integers(0, 3)) == 0:
        rec = draw(genheat.heat_net(max_n=4 if tier == "quick" else 7, allow_oos=True, labels=draw(st.booleans())))
        opts = {"mode": "hydraulics", "iter": 60}
    else:
        # two junction-pipe valves in parallel at the same pipe end are not generated here: with one of them closed the two
        # clauses 'a closed valve removes its pipe's edge' and 'graph islands = solver islands' contradict each other
        rec, opts = draw(gen.hyd_case(max_n=9 if tier == "quick" else 20, tight=False, allow_lift=draw(st.booleans()),
                                      pi_parallel=False, pi_every=3))
        opts["mode"] = "hydraulics"
    rec = make_consistent(rec)
    gopts = {}
    for t, kw in KW.items():
        if draw(st.integers(0, 5)) == 0:
            gopts["include_" + kw] = False
        if draw(st.integers(0, 4)) == 0:
            gopts["respect_status_" + kw] = False
    gopts["multi"] = draw(st.integers(0, 3)) > 0
    if draw(st.integers(0, 4)) == 0:
        gopts["respect_status_junctions"] = False
    return {"recipe": rec, "options": opts, "graph_options": gopts, "src": draw(st.integers(0, 50)),
            "default_graph": draw(st.booleans())}


def ref_edges(rec, gopts):
    """expected edges [(u, v, table, index, weight)] of create_nxgraph."""
    closed_pi = {}
    for e in rec["elements"]:
        if e["table"] == "valve" and e["et"] == "pi" and not e.get("opened", True):
            closed_pi[e["element"]] = True
    out = []
    for e in rec["elements"]:
        t = e["table"]
        if t not in FROM_TO or (t == "valve" and e["et"] == "pi"):
            continue
        kw = KW.get(t)
        if not gopts.get("include_" + kw, True):
            continue
        respect = gopts.get("respect_status_" + kw, True)
        active = e.get("opened", True) if t == "valve" else e.get("in_service", True)
        if respect and not active:
            continue
        if t == "pipe" and gopts.get("respect_status_valves", True) and e["index"] in closed_pi:
            continue
        a, b = FROM_TO[t]
        out.append((e[a], e[b], t, e["index"], e["length_km"] if t == "pipe" else 0.0))
    return out


def components(nodes, edges):
    adj = {n: set() for n in nodes}
    for u, v, *_ in edges:
        if u in adj and v in adj:
            adj[u].add(v)
            adj[v].add(u)
    seen, comps = set(), []
    for n in nodes:
        if n in seen:
            continue
        comp, stack = set(), [n]
        while stack:
            x = stack.pop()
            if x in comp:
                continue
            comp.add(x)
            stack.extend(adj[x] - comp)
        seen |= comp
        comps.append(frozenset(comp))
    return set(comps)


def dijkstra(nodes, edges, sources):
    adj = {n: [] for n in nodes}
    for u, v, _, _, w in edges:
        if u in adj and v in adj:
            adj[u].append((v, w))
            adj[v].append((u, w))
    dist = {s: 0.0 for s in sources if s in adj}
    pq = [(0.0, s) for s in dist]
    heapq.heapify(pq)
    while pq:
        d, u = heapq.heappop(pq)
        if d > dist.get(u, float("inf")):
            continue
        for v, w in adj[u]:
            nd = d + w
            if nd < dist.get(v, float("inf")):
                dist[v] = nd
                heapq.heappush(pq, (nd, v))
    return dist


def evaluate(case):
    import pandapipes.topology as top
    rec, opts, gopts = case["recipe"], case["options"], dict(case["graph_options"])
    if case["default_graph"]:
        gopts = {"multi": True}
    net = build(rec)
    f = []
    labels = {"multi" if gopts.get("multi", True) else "simple"}
    jall = [j["index"] for j in rec["junction"]]
    jin = [j["index"] for j in rec["junction"] if j.get("in_service", True)]
    # ---- graph structure
    try:
        mg = top.create_nxgraph(net, **gopts)
    except Exception as e:
        from ..recipe import exc_sig
        f.append(Finding("graph", "C18.create_nxgraph.raises." + exc_sig(e), {"exc": repr(e)[:300], "graph_options": gopts}))
        return Outcome(findings=f, labels=labels, nontrivial=True, sample=_sample(case))
    exp_edges = ref_edges(rec, gopts)
    exp_nodes = set(jall if not gopts.get("respect_status_junctions", True) else jin)
    nodes = set(mg.nodes())
    if not nodes <= set(jall):
        f.append(Finding("graph", "C18.nodes.foreign", {"foreign_nodes": sorted(nodes - set(jall))[:6]}))
    if nodes & set(jall) != exp_nodes:
        f.append(Finding("graph", "C18.nodes.set", {"missing": sorted(exp_nodes - nodes)[:6], "extra": sorted((nodes & set(jall)) - exp_nodes)[:6]}))
    exp_in = [(u, v, t, i, w) for (u, v, t, i, w) in exp_edges if u in exp_nodes and v in exp_nodes]
    if gopts.get("multi", True):
        got = {}
        for u, v, k in mg.edges(keys=True):
            got.setdefault(k, []).append((u, v))
        want = {(t, i): (u, v) for (u, v, t, i, w) in exp_in}
        for k, ends in got.items():
            if k not in want:
                f.append(Finding("graph", "C18.edges.unexpected.%s" % (k[0] if isinstance(k, tuple) else "?"), {"key": repr(k), "ends": ends}))
                break
            if len(ends) != 1 or set(ends[0]) != set(want[k]):
                f.append(Finding("graph", "C18.edges.ends." + k[0], {"key": repr(k), "ends": ends, "expected": want[k]}))
                break
        for k in want:
            if k not in got:
                f.append(Finding("graph", "C18.edges.missing." + k[0], {"key": repr(k), "expected": want[k]}))
                break
        for (u, v, t, i, w) in exp_in:
            if (t, i) in got:
                d = mg.get_edge_data(u, v, key=(t, i))
                if d is None or abs(d.get("weight", 0.0) - w) > 1e-12:
                    f.append(Finding("graph", "C18.edges.weight." + t, {"key": (t, i), "weight": None if d is None else d.get("weight"), "expected": w}))
                    break
    else:
        want_pairs = {frozenset((u, v)) for (u, v, t, i, w) in exp_in if u != v}
        got_pairs = {frozenset((u, v)) for u, v in mg.edges() if u != v}
        if want_pairs != got_pairs:
            f.append(Finding("graph", "C18.edges.simple_graph", {"missing": [sorted(p) for p in list(want_pairs - got_pairs)[:3]],
                                                                "extra": [sorted(p) for p in list(got_pairs - want_pairs)[:3]]}))
    import networkx as nx
    got_cc = {frozenset(c) for c in nx.connected_components(mg)}
    exp_cc = components(exp_nodes, exp_in)
    if not f and got_cc != exp_cc:
        f.append(Finding("graph", "C18.components", {"got": [sorted(c) for c in got_cc][:4], "expected": [sorted(c) for c in exp_cc][:4]}))
    if len(exp_cc) >= 2:
        labels.add("several_islands")
    # ---- distances (default graph of the distance functions)
    dflt_edges = ref_edges(rec, {})
    dflt_nodes = set(jin)
    if jin:
        src = jin[case["src"] % len(jin)]
        others = [jin[(case["src"] + 3 * k) % len(jin)] for k in range(1, 3)]
        for name, call, sources in (("calc_distance_to_junction", lambda: top.calc_distance_to_junction(net, src), [src]),
                                    ("calc_distance_to_junctions", lambda: top.calc_distance_to_junctions(net, [src] + others), [src] + others),
                                    ("calc_minimum_distance_to_junctions", lambda: top.calc_minimum_distance_to_junctions(net, [src] + others), [src] + others)):
            try:
                got = call()
            except Exception as e:
                from ..recipe import exc_sig
                f.append(Finding("distance", "C18.distance.raises.%s.%s" % (name, exc_sig(e)), {"exc": repr(e)[:200]}))
                continue
            exp = dijkstra(dflt_nodes, dflt_edges, sources)
            gd = {int(k): float(v) for k, v in got.items()}
            if set(gd) != set(exp) or any(abs(gd[k] - exp[k]) > 1e-9 for k in exp):
                bad = [k for k in set(gd) | set(exp) if abs(gd.get(k, -1) - exp.get(k, -1)) > 1e-9][:3]
                f.append(Finding("distance", "C18.distance." + name, {"sources": sources, "junctions": bad,
                                                                    "got": [gd.get(k) for k in bad], "expected": [exp.get(k) for k in bad]}))
    # ---- supply clause against the solver
    hyd = reach(rec)
    # preconditions: direction of pressure controllers / non-connecting components must not matter
    edges_all = graph(rec)
    und = _bfs(hydraulic_sources(rec), [dict(e, directed=False) for e in edges_all], lambda ed: ed["active"])
    und_j = {n[1] for n in und if n[0] == "j"}
    if und_j != hyd["junctions"]:
        labels.add("precondition_not_met")
    elif hyd["junctions"]:
        r = solve(net, **opts)
        if r.ok:
            nanp = {int(j) for j in net.res_junction.index[net.res_junction.p_bar.isnull()]}
            try:
                uns = {int(j) for j in top.unsupplied_junctions(net)}
            except Exception as e:
                from ..recipe import exc_sig
                uns = None
                f.append(Finding("supply", "C18.unsupplied_junctions.raises." + exc_sig(e), {"exc": repr(e)[:200]}))
            if uns is not None:
                oos = set(jall) - set(jin)
                if (uns | oos) != nanp:
                    kinds = sorted({e["table"] for e in rec["elements"] if e["table"].startswith("circ_pump") and e.get("in_service", True)})
                    sig = "C18.unsupplied_junctions" + (".circ_pump_supply" if kinds and not any(
                        e["table"] == "ext_grid" and e.get("in_service", True) for e in rec["elements"]) else "")
                    f.append(Finding("supply", sig, {"reported_unsupplied_plus_oos": sorted(uns | oos)[:8], "no_pressure_result": sorted(nanp)[:8]}))
                if nanp:
                    labels.add("has_unsupplied")
            labels.add("supply_checked")
    has_pi = any(e["table"] == "valve" and e["et"] == "pi" for e in rec["elements"])
    if has_pi:
        labels.add("pi_valve")
    nondefault = not case["default_graph"] and len(gopts) > 1
    nontriv = (len(exp_cc) >= 2 or "has_unsupplied" in labels or has_pi) and (nondefault or "supply_checked" in labels)
    return Outcome(findings=f, labels=labels, nontrivial=nontriv, sample=_sample(case))


def _sample(case):
    return {"recipe": abbreviate(case["recipe"]), "graph_options": case["graph_options"], "default_graph": case["default_graph"]}


def run_shard(coll, tier, seed, shard, nshards, known):
    run_given(case_strategy(tier), evaluate, EX[tier], derive_seed("C18", seed, shard), coll, known, shrink_s=30)


def replay(case):
    return evaluate(case)

"""C05 - a returned result is converged and finite; a failed run leaves no results.

Layer 1 (driver, model-based): `pandapipes.pipeflow.newton_raphson` takes the solve function as an
argument, so a scripted function replays generated per-iteration step sizes / residuals on a fake
net; invariants on the verdict are checked against the script.
Layer 2 (end-to-end): feasible and deliberately infeasible / singular / ill-conditioned nets in all
four modes; `newton_raphson` / `finalize_iteration` are wrapped from the outside to record every
stage; post-state after return and after raise.
Layer 3 (histories): op lists alternating feasible and infeasible runs on ONE net object.
"""
from __future__ import annotations

import copy
import importlib
import math

import numpy as np
from hypothesis import strategies as st

from .. import gen, genheat
from ..recipe import RELOADS, abbreviate, build, exc_sig, reload_net, res_tables
from ..refmodel import reach
from ..runner import Finding, Outcome, derive_seed, run_given

RULE = ("driver: scripts of per-iteration (errors per unknown, residual) incl. 0, tiny, huge, nan, inf; max_iter 0..12; both "
        "damping strategies; non-trivial = script contains a NaN/inf, or an error increase followed by a decrease, or "
        "acceptance is possible only after iteration 1. end-to-end: generated hydraulic / heating nets, modes hydraulics, "
        "sequential, bidirectional, heat, with fault injections (absurd loads, max_iter 0..3, zero / 1e-300 tolerances, NaN "
        "parameters, contradictory controllers, missing supply, all-zero flow with Colebrook); non-trivial = the run failed, "
        "or returned after >= 3 iterations in a stage. histories: 2..6 runs on one net object alternating feasible and "
        "infeasible settings; non-trivial = contains success->failure or failure->success. Distinct = distinct case hash.")
ASSUMPTIONS = ["documented rejections of invalid input (UserWarning: reversed circulation pump, disconnected controlled "
               "junction, no proper mode) are classified rejected_input, not non-convergence",
               "wrapping newton_raphson / finalize_iteration from outside does not change behaviour (they are called through "
               "module globals)"]
NSHARDS = {"quick": 16, "thorough": 16}
EX_DRV = {"quick": 1500, "thorough": 40000}
EX_E2E = {"quick": 45, "thorough": 1500}
EX_HIS = {"quick": 40, "thorough": 800}

pf = None


def _pf():
    global pf
    if pf is None:
        pf = importlib.import_module("pandapipes.pipeflow")
    return pf


# =================================================================================================
# layer 1: driver
# =================================================================================================
SPECIAL = [0.0, 1e-300, 1e-12, 1e-6, 1e-5, 1.0000001e-5, 1e-3, 0.5, 1.0, 10.0, 1e30, float("nan"), float("inf")]


@st.composite
def driver_case(draw):
    nvar = draw(st.integers(1, 3))
    n = draw(st.integers(0, 12))
    vals = st.one_of(st.sampled_from(SPECIAL), st.floats(0, 2, allow_nan=False),
                     st.floats(1e-9, 1e-4, allow_nan=False))
    # scripts that look like real runs: geometric decrease with occasional bumps
    if draw(st.booleans()):
        script = []
        e = [draw(st.floats(0.1, 10)) for _ in range(nvar)]
        r = draw(st.floats(0.1, 10))
        for _ in range(n + 1):
            script.append({"e": list(e), "r": r})
            fac = draw(st.sampled_from([0.01, 0.1, 0.5, 0.5, 2.0, 5.0, 1.0]))
            e = [x * fac * draw(st.sampled_from([1.0, 1.0, 0.3, 3.0])) for x in e]
            r = r * fac
    else:
        script = [{"e": [draw(vals) for _ in range(nvar)], "r": draw(vals)} for _ in range(n + 1)]
    return {"kind": "driver", "script": script, "max_iter": draw(st.integers(0, 12)),
            "method": draw(st.sampled_from(["constant", "automatic"])),
            "tols": [draw(st.sampled_from([1e-5, 1e-3, 0.0, 1e-300, 1.0])) for _ in range(nvar)],
            "tol_res": draw(st.sampled_from([1e-3, 1e-8, 0.0, 1.0])),
            "empty": draw(st.integers(0, 9)) == 0, "alpha": 1}


def _num(v):
    return float(v) if not isinstance(v, str) else float(v)


def eval_driver(case):
    from pandapower.auxiliary import ADict
    from pandapipes.idx_branch import branch_cols
    from pandapipes.idx_node import node_cols
    m = _pf()
    script = [{"e": [_num(x) for x in s["e"]], "r": _num(s["r"])} for s in case["script"]]
    nvar = len(case["tols"])
    names = ["mdot", "p", "mdotslack"][:nvar]
    pits = ["branch", "node", "node"][:nvar]
    nb, nn = (0, 0) if case["empty"] else (3, 2)
    net = ADict()
    net["converged"] = False
    net["_options"] = dict(max_iter_hyd=case["max_iter"], nonlinear_method=case["method"], tol_res=_num(case["tol_res"]),
                           alpha=case["alpha"])
    net["_active_pit"] = {"branch": np.zeros((nb, branch_cols)), "node": np.zeros((nn, node_cols))}
    calls = []
    alphas = []

    def funct(net_):
        i = len(calls)
        alphas.append(net_["_options"]["alpha"])
        s = script[min(i, len(script) - 1)]
        calls.append(i)
        res, filt = [], []
        for v, pit in zip(range(nvar), pits):
            ln = nb if pit == "branch" else nn
            if names[v] == "mdotslack":
                ln = min(1, nn)
                filt.append(np.arange(ln))
            else:
                filt.append(None)
            res += [np.full(ln, s["e"][v]), np.zeros(ln)]
        return res, np.array([s["r"]]), filt

    tols = [_num(t) for t in case["tols"]]
    try:
        m.newton_raphson(net, funct, "hydraulics", names, tols, pits, "max_iter_hyd")
    except Exception as e:
        return Outcome(findings=[Finding("driver", "C05.driver.raises." + type(e).__name__, {"exc": repr(e), "case": case})],
                       labels={"driver"}, nontrivial=True, sample=case)
    f = []
    it = len(calls)
    ir = net["_internal_results"]
    if it > case["max_iter"]:
        f.append(Finding("budget", "C05.driver.budget", {"iterations": it, "max_iter": case["max_iter"]}))
    if ir.get("iterations_hydraulics") != it:
        f.append(Finding("bookkeeping", "C05.driver.iteration_count", {"reported": ir.get("iterations_hydraulics"), "calls": it}))
    eff = [[(0.0 if (case["empty"] and names[v] != "mdotslack") or (case["empty"] and nn == 0) else s["e"][v])
            for v in range(nvar)] for s in script]
    if net["converged"]:
        if it == 0:
            f.append(Finding("verdict", "C05.driver.converged_without_iteration", {}))
        else:
            last = script[min(it - 1, len(script) - 1)]
            le = [0.0 if case["empty"] else last["e"][v] for v in range(nvar)]
            bad = [v for v in range(nvar) if not (le[v] <= tols[v])]
            if bad:
                f.append(Finding("verdict", "C05.driver.accepted_error_above_tol",
                                 {"last_errors": le, "tols": tols, "nan": any(math.isnan(le[v]) for v in bad)}))
            if not (last["r"] <= _num(case["tol_res"])):
                f.append(Finding("verdict", "C05.driver.accepted_residual_above_tol",
                                 {"residual": last["r"], "tol_res": case["tol_res"]}))
            if case["method"] == "automatic" and alphas[it - 1] != 1:
                f.append(Finding("verdict", "C05.driver.accepted_damped_step",
                                 {"alpha_of_last_step": alphas[it - 1], "alphas": alphas}))
    else:
        if it < case["max_iter"]:
            f.append(Finding("budget", "C05.driver.stopped_early_unconverged", {"iterations": it, "max_iter": case["max_iter"]}))
    flat = [x for s in script for x in s["e"]] + [s["r"] for s in script]
    has_nan = any(math.isnan(x) or math.isinf(x) for x in flat)
    bump = any(script[i]["e"][0] < script[i + 1]["e"][0] and i + 2 < len(script) and script[i + 2]["e"][0] < script[i + 1]["e"][0]
               for i in range(len(script) - 1))
    labels = {"driver", "method:" + case["method"], "converged" if net["converged"] else "not_converged"}
    if has_nan:
        labels.add("nan_or_inf")
    if bump:
        labels.add("increase_then_recover")
    if any(a != 1 for a in alphas):
        labels.add("damped_steps")
    return Outcome(findings=f, labels=labels, nontrivial=has_nan or bump or (net["converged"] and it >= 2), sample=case)


# =================================================================================================
# layer 2/3: end to end
# =================================================================================================
class Recorder:
    """wraps newton_raphson and finalize_iteration (module globals) to record every solved stage."""

    def __enter__(self):
        m = _pf()
        self.m = m
        self.stages = []
        self.o_nr, self.o_fin = m.newton_raphson, m.finalize_iteration
        rec = self

        def nr(net, funct, mode, solver_vars, tols, pit_names, iter_name):
            st_ = {"mode": mode, "vars": list(solver_vars), "tols": list(tols), "alpha_steps": [], "done": False,
                   "max_iter": net["_options"][iter_name], "tol_res": net["_options"]["tol_res"],
                   "method": net["_options"]["nonlinear_method"]}
            rec.stages.append(st_)
            try:
                return rec.o_nr(net, funct, mode, solver_vars, tols, pit_names, iter_name)
            finally:
                ir = net.get("_internal_results", {})
                st_["errors"] = {v: list(ir.get(v, [])) for v in solver_vars}
                st_["residual"] = ir.get("residual_norm_%s" % mode)
                st_["iterations"] = ir.get("iterations_%s" % mode)
                st_["converged"] = bool(net["converged"])
                st_["done"] = True

        def fin(net, niter, residual_norm, nonlinear_method, **kw):
            if rec.stages:
                rec.stages[-1]["alpha_steps"].append(net["_options"]["alpha"])
            return rec.o_fin(net, niter, residual_norm, nonlinear_method, **kw)

        m.newton_raphson, m.finalize_iteration = nr, fin
        return self

    def __exit__(self, *a):
        self.m.newton_raphson, self.m.finalize_iteration = self.o_nr, self.o_fin


def finite_count(net):
    n = 0
    where = []
    for t in res_tables(net):
        df = net[t]
        if not len(df) or not len(df.columns):
            continue
        vals = df.select_dtypes(include=[np.number]).values
        k = int(np.isfinite(vals.astype(float)).sum()) if vals.size else 0
        if k:
            where.append((t, k))
        n += k
    return n, where


def stage_findings(stages):
    f = []
    for s in stages:
        if not s["done"]:
            continue
        it = s["iterations"]
        if it is not None and it > s["max_iter"]:
            f.append(Finding("budget", "C05.e2e.budget", {"stage": s["mode"], "iterations": it, "max_iter": s["max_iter"]}))
        if s["converged"]:
            for v, tol in zip(s["vars"], s["tols"]):
                e = s["errors"].get(v, [])
                if not e or not (e[-1] <= tol):
                    f.append(Finding("verdict", "C05.e2e.accepted_error_above_tol",
                                     {"stage": s["mode"], "var": v, "last_error": e[-1] if e else None, "tol": tol}))
            if s["residual"] is None or not (s["residual"] <= s["tol_res"]):
                f.append(Finding("verdict", "C05.e2e.accepted_residual_above_tol",
                                 {"stage": s["mode"], "residual": s["residual"], "tol_res": s["tol_res"]}))
            if s["method"] == "automatic" and s["alpha_steps"] and s["alpha_steps"][-1] != 1:
                f.append(Finding("verdict", "C05.e2e.accepted_damped_step",
                                 {"stage": s["mode"], "alpha_of_last_step": s["alpha_steps"][-1]}))
    return f


REJECT_MARKERS = ("badly modelled", "identified as disconnected", "No proper calculation mode", "Converged flag not set",
                  "out of service, which leads to an inconsistency")


def run_and_check(net, opts, sol_vec=None, label=""):
    """one pipeflow call with full post-state check. returns (status, findings)."""
    import pandapipes as pp
    from pandapipes.pf.pipeflow_setup import PipeflowNotConverged
    f = []
    with Recorder() as rec:
        try:
            if sol_vec is not None:
                pp.pipeflow(net, sol_vec=sol_vec, **opts)
            else:
                pp.pipeflow(net, **opts)
            status = "ok"
            exc = None
        except PipeflowNotConverged as e:
            status, exc = "not_converged", e
        except UserWarning as e:
            status, exc = ("rejected_input" if any(mk in str(e) for mk in REJECT_MARKERS) else "userwarning"), e
        except Exception as e:
            status, exc = "crash", e
    f += stage_findings(rec.stages)
    if status == "ok":
        if net["converged"] is not True and not bool(net["converged"]):
            f.append(Finding("post_ok", "C05.ok.not_marked_converged", {}))
        if any(not s["converged"] for s in rec.stages if s["done"] and s is rec.stages[-1]):
            f.append(Finding("post_ok", "C05.ok.last_stage_not_converged", {"stages": [s["mode"] for s in rec.stages]}))
        # finiteness: supplied junctions and their active branches
        rj = net.res_junction
        sup = ~rj.p_bar.isnull()
        if np.isinf(rj.values.astype(float)).any() or rj.t_k[sup].isnull().any():
            f.append(Finding("post_ok", "C05.ok.nonfinite_junction_result", {}))
        for t in res_tables(net):
            df = net[t]
            if t == "res_junction" or not len(df):
                continue
            vals = df.values.astype(float)
            if np.isinf(vals).any():
                f.append(Finding("post_ok", "C05.ok.inf_in_results", {"table": t}))
                continue
            if "mdot_from_kg_per_s" in df.columns:
                live = ~df.mdot_from_kg_per_s.isnull().values
                # thermal columns may be NaN for elements that are hydraulically supplied but not reached by
                # a temperature feed (thermal connectivity, cf. C04) - but then all of them are
                thermal = [c for c in df.columns if c in ("t_from_k", "t_to_k", "t_outlet_k")]
                cols = [c for c in df.columns if c not in ("compr_power_mw", "deltat_k", "qext_w") and c not in thermal]
                sub = df.loc[live, cols]
                if sub.isnull().values.any():
                    badc = [c for c in cols if sub[c].isnull().any()]
                    f.append(Finding("post_ok", "C05.ok.partial_nan_row." + t[4:] + "." + badc[0], {"table": t, "columns": badc}))
                if thermal:
                    tn = df.loc[live, thermal].isnull().values
                    if (tn.any(axis=1) & ~tn.all(axis=1)).any():
                        f.append(Finding("post_ok", "C05.ok.partial_thermal_row." + t[4:], {"table": t}))
    else:
        if status == "crash":
            sig = "C05.wrong_exception." + exc_sig(exc)
            # qualifiers that make the two recorded findings narrow
            if "press_control" in net and len(net.press_control):
                pc = net.press_control
                act = pc[pc.in_service.values & pc.control_active.values]
                if act.controlled_junction.duplicated().any() and "build_system_matrix" in sig:
                    sig += ".duplicate_controlled_junction"
            if opts.get("mode") == "bidirectional" and opts.get("nonlinear_method") == "automatic" and \
                    "finalize_iteration" in sig:
                sig += ".bidirectional_automatic"
            f.append(Finding("exception_type", sig, {"exc": repr(exc)[:300]}))
        elif status == "userwarning":
            f.append(Finding("exception_type", "C05.wrong_exception.UserWarning." + exc_sig(exc), {"exc": repr(exc)[:300]}))
        if bool(net["converged"]) and status != "rejected_input":
            f.append(Finding("post_fail", "C05.fail.marked_converged", {"status": status, "exc": repr(exc)[:200]}))
        n, where = finite_count(net)
        if n and status != "rejected_input":
            f.append(Finding("post_fail", "C05.fail.results_left", {"status": status, "finite_entries": where[:5],
                                                                    "exc": repr(exc)[:200]}))
        if status == "rejected_input" and (n or bool(net["converged"])) and "badly modelled" not in str(exc):
            f.append(Finding("post_fail", "C05.rejected.results_left", {"finite_entries": where[:5], "exc": repr(exc)[:200]}))
    max_it = max([s["iterations"] or 0 for s in rec.stages if s["done"]] or [0])
    return status, f, max_it


FAULTS = ["none", "none", "absurd_load", "max_iter", "zero_tol", "tiny_tol", "nan_param", "fc_series", "no_supply",
          "two_pc_same_junction", "zero_flow_colebrook", "contradictory_pressures", "alpha_small"]


def inject(rec, opts, fault, k, x):
    """returns (recipe, options) with the fault applied; k, x are generated selectors."""
    rec = copy.deepcopy(rec)
    opts = dict(opts)
    els = rec["elements"]
    loads = [e for e in els if e["table"] in ("sink", "source", "mass_storage")]
    pipes = [e for e in els if e["table"] == "pipe"]
    js = [j["index"] for j in rec["junction"]]
    nxt = lambda t: max([e["index"] for e in els if e["table"] == t] + [-1]) + 1
    if fault == "absurd_load":
        if loads:
            loads[k % len(loads)]["mdot_kg_per_s"] = abs(loads[k % len(loads)]["mdot_kg_per_s"] + 1.0) * 10 ** (3 + x % 6)
        else:
            els.append({"table": "sink", "index": nxt("sink"), "junction": js[k % len(js)], "mdot_kg_per_s": 1e5})
    elif fault == "max_iter":
        opts.pop("iter", None)
        opts.update(max_iter_hyd=x % 4, max_iter_therm=(x // 4) % 4, max_iter_bidirect=x % 4)
    elif fault == "zero_tol":
        opts[["tol_p", "tol_m", "tol_res", "tol_T"][k % 4]] = 0.0
    elif fault == "tiny_tol":
        opts[["tol_p", "tol_m", "tol_res", "tol_T"][k % 4]] = 1e-300
    elif fault == "nan_param":
        if pipes and x % 3 != 2:
            pipes[k % len(pipes)][["length_km", "inner_diameter_mm", "k_mm"][x % 3]] = "nan"
        else:
            rec["junction"][k % len(js)]["pn_bar"] = "nan"
    elif fault == "fc_series" and len(js) >= 2:
        a, b = js[k % len(js)], js[(k + 1) % len(js)]
        mid = max(js) + 1
        rec["junction"].append(dict(rec["junction"][0], index=mid, in_service=True))
        els.append({"table": "flow_control", "index": nxt("flow_control"), "from_junction": a, "to_junction": mid,
                    "controlled_mdot_kg_per_s": 0.01, "control_active": True, "in_service": True})
        els.append({"table": "flow_control", "index": nxt("flow_control") , "from_junction": mid, "to_junction": b,
                    "controlled_mdot_kg_per_s": 0.02 + 0.01 * (x % 3), "control_active": True, "in_service": True})
    elif fault == "no_supply":
        for e in els:
            if e["table"] in ("ext_grid", "circ_pump_pressure", "circ_pump_mass"):
                e["in_service"] = False
    elif fault == "two_pc_same_junction" and len(js) >= 3:
        a, b, c = js[k % len(js)], js[(k + 1) % len(js)], js[(k + 2) % len(js)]
        for fr in (a, b):
            els.append({"table": "press_control", "index": nxt("press_control"), "from_junction": fr, "to_junction": c,
                        "controlled_junction": c, "controlled_p_bar": 1.0 + 0.1 * (x % 5), "control_active": True,
                        "loss_coefficient": 0.0, "in_service": True, "check_controllability": False})
    elif fault == "zero_flow_colebrook":
        for e in loads:
            e["mdot_kg_per_s"] = 0.0
        for e in els:
            if e["table"] in ("flow_control",):
                e["in_service"] = False
        opts["friction_model"] = "colebrook"
    elif fault == "contradictory_pressures" and len(js) >= 2:
        a, b = js[k % len(js)], js[(k + 1) % len(js)]
        p = rec["junction"][0]["pn_bar"]
        p = 5.0 if isinstance(p, str) else p
        els.append({"table": "ext_grid", "index": nxt("ext_grid"), "junction": a, "p_bar": p, "t_k": 300.0, "type": "pt"})
        els.append({"table": "ext_grid", "index": nxt("ext_grid") , "junction": b, "p_bar": p * 0.5, "t_k": 300.0, "type": "pt"})
        els.append({"table": "valve", "index": nxt("valve"), "junction": a, "element": b, "et": "ju",
                    "inner_diameter_mm": 100.0, "opened": True, "loss_coefficient": 0.0})
    elif fault == "alpha_small":
        opts["alpha"] = [0.1, 0.5, 1e-3][x % 3]
    return rec, opts


@st.composite
def e2e_case(draw, tier):
    heat = draw(st.integers(0, 2)) == 0
    if heat:
        rec = draw(genheat.heat_net(max_n=4, allow_oos=True))
        opts = draw(genheat.heat_options(tight=draw(st.booleans())))
        opts["mode"] = draw(st.sampled_from(["sequential", "bidirectional", "heat"]))
    else:
        rec, opts = draw(gen.hyd_case(max_n=7, tight=draw(st.booleans())))
        opts["mode"] = "hydraulics"
    opts["nonlinear_method"] = draw(st.sampled_from(["constant", "automatic"]))
    fault = draw(st.sampled_from(FAULTS))
    return {"kind": "e2e", "recipe": rec, "options": opts, "fault": fault, "k": draw(st.integers(0, 20)),
            "x": draw(st.integers(0, 20))}


def _sol_vec(net):
    from pandapipes.idx_branch import MDOTINIT
    from pandapipes.idx_node import PINIT
    return np.concatenate((net["_pit"]["node"][:, PINIT], net["_pit"]["branch"][:, MDOTINIT]))


def eval_e2e(case):
    rec, opts = inject(case["recipe"], case["options"], case["fault"], case["k"], case["x"])
    try:
        net = build(rec)
    except Exception as e:
        return Outcome(discard="build:" + type(e).__name__)
    opts = dict(opts)
    sol = None
    if opts["mode"] == "heat":
        # thermal-only run from a stored hydraulic solution
        import pandapipes as pp
        hyd = dict(opts, mode="hydraulics")
        try:
            pp.pipeflow(net, **hyd)
            sol = _sol_vec(net)
        except Exception:
            opts["mode"] = "sequential"
    status, f, max_it = run_and_check(net, opts, sol)
    labels = {"e2e", "mode:" + opts["mode"], "fault:" + case["fault"], "status:" + status,
              "method:" + opts.get("nonlinear_method", "constant")}
    return Outcome(findings=f, labels=labels, nontrivial=(status != "ok") or max_it >= 3,
                   sample={"recipe": abbreviate(rec), "options": opts, "fault": case["fault"], "status": status})


@st.composite
def history_case(draw):
    heat = draw(st.integers(0, 2)) == 0
    if heat:
        rec = draw(genheat.heat_net(max_n=3))
        base = draw(genheat.heat_options(tight=False))
    elif draw(st.integers(0, 3)) == 0:
        # two districts with a feeder each: feeder outages change what is supplied, nothing else
        rec = draw(gen.two_districts(max_n=6))
        base = draw(gen.hyd_options(tight=False, friction_model="nikuradse"))
        base["mode"] = "hydraulics"
    else:
        rec, base = draw(gen.hyd_case(max_n=6, tight=False))
        base["mode"] = "hydraulics"
    steps = draw(st.lists(st.tuples(st.sampled_from(["ok", "ok", "overload", "max_iter0", "max_iter1", "zero_tol", "no_supply",
                                                     "automatic", "other_mode", "one_feeder_off", "one_feeder_off"]),
                                    st.integers(0, 10),
                                    st.sampled_from(["none", "none", "none"] + RELOADS)), min_size=2, max_size=6))
    steps = [list(s) for s in steps]
    if rec.get("meta", {}).get("two_districts"):
        # make sure a feeder outage is followed by a calculation with the feeder back
        steps = [["one_feeder_off", draw(st.integers(0, 1)), "none"], ["ok", 0, "none"]] + steps[:4]
    return {"kind": "history", "recipe": rec, "options": base, "steps": steps}


def eval_history(case):
    try:
        net = build(case["recipe"])
    except Exception as e:
        return Outcome(discard="build:" + type(e).__name__)
    f = []
    seq = []
    base = dict(case["options"])
    heat_capable = base.get("mode") in ("sequential", "bidirectional")
    load_tbl = "sink" if ("sink" in net and len(net.sink)) else None
    hc = "heat_consumer" in net and len(net.heat_consumer) > 0
    feeders = [t for t in ("ext_grid", "circ_pump_pressure", "circ_pump_mass") if t in net and len(net[t])]
    orig = {t: net[t].copy() for t in feeders + ([load_tbl] if load_tbl else []) + (["heat_consumer"] if hc else [])}
    preps = set()
    for stp in case["steps"]:
        step, x = stp[0], stp[1]
        prep = stp[2] if len(stp) > 2 else "none"
        if prep != "none" and seq:
            # the user saved / loaded / copied the net or post-processed a result table since the last calculation
            try:
                net = reload_net(net, prep)
            except Exception as e:
                return Outcome(discard="reload:%s:%s" % (prep, type(e).__name__))
            preps.add(prep)
        for t, df in orig.items():
            net[t] = df.copy()
        opts = dict(base)
        if step == "overload":
            if load_tbl:
                net.sink["mdot_kg_per_s"] = net.sink["mdot_kg_per_s"].abs() * 10.0 ** (4 + x % 4) + 1e3
            elif hc:
                net.heat_consumer["controlled_mdot_kg_per_s"] = net.heat_consumer["controlled_mdot_kg_per_s"] * 1e6
                net.heat_consumer["qext_w"] = net.heat_consumer["qext_w"] * 1e9
            else:
                opts["tol_res"] = 0.0
        elif step == "max_iter0":
            opts.pop("iter", None); opts.update(max_iter_hyd=0, max_iter_therm=0, max_iter_bidirect=0)
        elif step == "max_iter1":
            opts.pop("iter", None); opts.update(max_iter_hyd=1, max_iter_therm=1, max_iter_bidirect=1)
        elif step == "zero_tol":
            opts["tol_m"] = 0.0
        elif step == "no_supply":
            for t in feeders:
                net[t]["in_service"] = False
        elif step == "one_feeder_off":
            # partial outage of the supply: one feeder is switched off, the others stay (restored in the next step)
            allf = [(t, i) for t in feeders for i in net[t].index]
            t, i = allf[x % len(allf)]
            net[t].at[i, "in_service"] = False
        elif step == "automatic":
            opts["nonlinear_method"] = "automatic"
        elif step == "other_mode":
            opts["mode"] = "hydraulics" if heat_capable and x % 2 else (base["mode"] if not heat_capable else
                                                                       ("bidirectional" if base["mode"] == "sequential" else "sequential"))
        status, ff, _ = run_and_check(net, opts)
        if status == "ok":
            # "every supplied in-service element has finite results": which junctions are supplied is decided by the
            # reference reachability model on the current flags, not by the solver's own NaN pattern
            cur = copy.deepcopy(case["recipe"])
            for e in cur["elements"]:
                if e["table"] in feeders and e["index"] in net[e["table"]].index:
                    e["in_service"] = bool(net[e["table"]].at[e["index"], "in_service"])
            want = reach(cur)["junctions"]
            pj = net.res_junction.p_bar
            got = {int(j) for j in pj.index[~pj.isnull()]}
            if got != want:
                ff.append(Finding("post_ok", "C05.ok.supplied_junction_without_result" if want - got else "C05.ok.result_for_unsupplied_junction",
                                  {"supplied_without_result": sorted(want - got)[:6], "result_but_unsupplied": sorted(got - want)[:6]}))
        for fi in ff:
            fi.detail = dict(fi.detail, step=step, history=[s for s in seq])
        f += ff
        seq.append(status)
    tr = {(a == "ok", b == "ok") for a, b in zip(seq[:-1], seq[1:])}
    nontriv = (True, False) in tr or (False, True) in tr
    labels = {"history", "len:%d" % len(seq)} | {"status:" + s for s in seq} | {"between_runs:" + p_ for p_ in preps}
    if case["recipe"].get("meta", {}).get("two_districts"):
        labels.add("two_districts")
    if any(stp[0] == "one_feeder_off" for stp in case["steps"]):
        labels.add("partial_supply_outage")
    if (True, False) in tr:
        labels.add("success_then_failure")
    if (False, True) in tr:
        labels.add("failure_then_success")
    return Outcome(findings=f, labels=labels, nontrivial=nontriv,
                   sample={"recipe": abbreviate(case["recipe"]), "steps": case["steps"], "statuses": seq})


def evaluate(case):
    return {"driver": eval_driver, "e2e": eval_e2e, "history": eval_history}[case["kind"]](case)


def run_shard(coll, tier, seed, shard, nshards, known):
    if shard % 8 == 0:
        run_given(driver_case(), evaluate, EX_DRV[tier], derive_seed("C05d", seed, shard), coll, known)
    elif shard % 4 == 1:
        run_given(history_case(), evaluate, EX_HIS[tier], derive_seed("C05h", seed, shard), coll, known, shrink_s=30)
    else:
        run_given(e2e_case(tier), evaluate, EX_E2E[tier], derive_seed("C05e", seed, shard), coll, known, shrink_s=30)


def replay(case):
    return evaluate(case)

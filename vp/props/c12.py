"""C12 - pipeflow is a pure, repeatable function of the network description.

History-based: a generated list of operations is executed on ONE net object; after every
calculation (a) the deep snapshot of everything the user owns is unchanged, (b) an immediate repeat
is bit-identical, (c) the results are bit-identical to the same call on a freshly built net with the
current parameters - whatever was calculated before (other modes, options, failed runs, altered
and restored parameters). A thermal-only run from a stored hydraulic solution equals the sequential
run.
"""
from __future__ import annotations

import copy

import numpy as np
import pandas as pd
from hypothesis import strategies as st

from .. import gen, genheat
from ..compare import compare_nets
from ..recipe import abbreviate, build, reload_net
from ..runner import Finding, Outcome, derive_seed, run_given

RULE = ("cases = (recipe, list of 3..8 operations) on one net object. Operations: run(mode, options) with modes hydraulics / "
        "sequential / bidirectional, friction models, both engines, both damping strategies, deliberately failing settings "
        "(iter=1, tol 0, absurd load), matrix-update / reuse options; edit-run-undo of a parameter (load, pipe length, "
        "in_service, ext-grid pressure, ext-grid junction, pipe end junction); set_user_pf_options; hydraulics followed by "
        "mode='heat' from the stored solution; the net object pickled and re-loaded / deep-copied / a result column "
        "re-assigned between two calculations. "
        "Non-trivial = history of length >= 3 that contains a failing run or a mode change. Distinct = distinct case hash.")
ASSUMPTIONS = ["net.converged and user_pf_options['hyd_flag'] are pipeflow's own bookkeeping and not part of the snapshot",
               "tables starting with '_' (internal data) and 'res_' (results) are outputs"]
EX = {"quick": 16, "thorough": 600}

FAIL_OPTS = [{"iter": 1}, {"tol_m": 0.0}, {"tol_res": 0.0, "iter": 3}]


@st.composite
def run_op(draw, heat):
    mode = draw(st.sampled_from(["sequential", "bidirectional", "hydraulics"] if heat else ["hydraulics"]))
    o = {"mode": mode, "use_numba": draw(st.booleans()),
         "friction_model": draw(st.sampled_from(["nikuradse", "nikuradse", "colebrook", "swamee-jain"])),
         "nonlinear_method": draw(st.sampled_from(["constant", "constant", "automatic"])), "iter": 60}
    k = draw(st.integers(0, 9))
    if k == 0:
        o.update(draw(st.sampled_from(FAIL_OPTS)))
    elif k == 1:
        o.update(only_update_hydraulic_matrix=True)
    elif k == 3:
        # keeps the matrix structure on the net object; only valid while the structure is unchanged, so evaluate() strips the
        # reuse flag whenever stored data of an earlier state could be picked up - a later run WITHOUT the flag must not see it
        o.update(only_update_hydraulic_matrix=True, reuse_internal_data=True)
    if mode == "bidirectional":
        o["nonlinear_method"] = "constant"               # bidirectional + automatic: known finding of C05
    elif k == 2:
        o.update(tol_p=1e-8, tol_m=1e-8)
    return {"op": "run", "opts": o}


@st.composite
def case_strategy(draw, tier):
    heat = draw(st.integers(0, 2)) > 0
    if heat:
        rec = draw(genheat.heat_net(max_n=3 if tier == "quick" else 5, allow_oos=draw(st.booleans())))
    else:
        rec = draw(gen.hyd_net(max_n=6 if tier == "quick" else 12))
    ops = []
    n = draw(st.integers(3, 8))
    for _ in range(n):
        kind = draw(st.sampled_from(["run", "run", "run", "edit_undo", "user_opts", "overload_run", "hyd_then_heat" if heat else "run",
                                     "reload"]))
        if kind == "run":
            ops.append(draw(run_op(heat)))
        elif kind == "edit_undo":
            ops.append({"op": "edit_undo", "k": draw(st.integers(0, 50)), "what": draw(st.sampled_from(["load", "length", "in_service", "p", "ext_grid_junction", "rewire", "temperature"])),
                        "factor": draw(st.sampled_from([0.5, 2.0, 1e4])), "run": draw(run_op(heat))["opts"]})
        elif kind == "user_opts":
            ops.append({"op": "user_opts", "opts": draw(st.sampled_from([{"friction_model": "swamee-jain"}, {"iter": 2}, {"tol_m": 1e-7},
                                                                          {"ambient_temperature": 280.0}, {"use_numba": False}, {}])),
                        "reset": draw(st.booleans())})
        elif kind == "reload":
            # the user pickles / copies the net or post-processes a result table between two calculations
            ops.append({"op": "reload", "how": draw(st.sampled_from(["pickle", "deepcopy", "touch"]))})
        elif kind == "overload_run":
            ops.append({"op": "edit_undo", "k": draw(st.integers(0, 50)), "what": "load", "factor": 1e7, "run": draw(run_op(heat))["opts"]})
        else:
            ops.append({"op": "hyd_then_heat", "opts": {"use_numba": draw(st.booleans()), "iter": 60,
                                                        "friction_model": "nikuradse"}})
    return {"recipe": rec, "ops": ops}


# ---------------------------------------------------------------------------------------------
def snapshot(net):
    snap = {}
    for k in net.keys():
        if k.startswith("_") or k.startswith("res_") or k in ("converged",):
            continue
        v = net[k]
        if isinstance(v, pd.DataFrame):
            snap[k] = ("df", v.copy(deep=True), v.dtypes.to_dict(), v.index.dtype)
        elif k == "fluid":
            snap[k] = ("fluid", fluid_fingerprint(v))
        elif k == "std_types":
            snap[k] = ("std", std_fingerprint(v))
        elif k == "user_pf_options":
            snap[k] = ("dict", copy.deepcopy({a: b for a, b in v.items() if a != "hyd_flag"}))
        elif k == "component_list":
            snap[k] = ("list", [c.__name__ for c in v])
        else:
            snap[k] = ("val", copy.deepcopy(v))
    return snap


def fluid_fingerprint(fl):
    if fl is None:
        return None
    out = {"name": fl.name, "type": fl.fluid_type, "props": {}}
    for name, p in sorted(fl.all_properties.items()):
        vals = []
        for x in (250.0, 273.15, 300.0, 350.0, 420.0):
            try:
                vals.append(float(np.ravel(p.get_at_value(np.array([x])))[0]))
            except Exception as e:           # e.g. a table without extrapolation queried outside its range
                vals.append("raises " + type(e).__name__)
        out["props"][name] = (type(p).__name__, vals)
    return out


def std_fingerprint(st_):
    out = {}
    for comp, types in st_.items():
        for name, t in types.items():
            if hasattr(t, "reg_par"):
                out[(comp, name)] = ("pump", tuple(float(x) for x in np.ravel(t.reg_par)))
            else:
                out[(comp, name)] = ("dict", tuple(sorted((k, repr(v)) for k, v in dict(t).items())))
    return out


def diff_snapshot(a, b):
    a, b = dict(a), dict(b)
    for s_ in (a, b):
        s_.setdefault("user_pf_options", ("dict", {}))     # created by pipeflow for its hyd_flag bookkeeping
    if set(a) != set(b):
        return "keys changed: +%s -%s" % (sorted(set(b) - set(a)), sorted(set(a) - set(b)))
    for k in a:
        ka, kb = a[k], b[k]
        if ka[0] == "df":
            da, db = ka[1], kb[1]
            if list(da.columns) != list(db.columns) or list(da.index) != list(db.index):
                return "table %s: columns / index changed" % k
            if ka[2] != kb[2] or ka[3] != kb[3]:
                ch = [c for c in da.columns if ka[2][c] != kb[2].get(c)]
                return "table %s: dtypes changed %s" % (k, ch)
            for c in da.columns:
                x, y = da[c].values, db[c].values
                try:
                    same = np.array_equal(x, y, equal_nan=True)
                except TypeError:
                    same = all((u == v) or (u is v) or (isinstance(u, float) and isinstance(v, float) and u != u and v != v)
                               for u, v in zip(x, y))
                if not same:
                    i = [j for j in range(len(x)) if not (x[j] == y[j] or (x[j] != x[j] and y[j] != y[j]))][:1]
                    return "table %s column %s changed at row %s: %r -> %r" % (k, c, i, x[i[0]] if i else None, y[i[0]] if i else None)
        elif ka != kb:
            return "%s changed" % k
    return None


def results_equal(a, b):
    for t in sorted(k for k in set(a.keys()) | set(b.keys()) if k.startswith("res_")):
        if t not in a or t not in b:
            if (t in a and len(a[t])) or (t in b and len(b[t])):
                return "result table %s only in one net" % t
            continue
        x, y = a[t], b[t]
        if x.shape != y.shape or list(x.columns) != list(y.columns) or list(x.index) != list(y.index):
            return "result table %s: shape / labels differ" % t
        if not np.array_equal(x.values.astype(float), y.values.astype(float), equal_nan=True):
            d = np.argwhere(~((x.values.astype(float) == y.values.astype(float)) | (np.isnan(x.values.astype(float)) & np.isnan(y.values.astype(float)))))
            i, j = d[0]
            return "result table %s differs at [%s, %s]: %r vs %r" % (t, x.index[i], x.columns[j], x.values[i, j], y.values[i, j])
    return None


def call(net, opts, sol_vec=None):
    import pandapipes as pp
    try:
        if sol_vec is not None:
            pp.pipeflow(net, sol_vec=sol_vec, **opts)
        else:
            pp.pipeflow(net, **opts)
        return "ok"
    except Exception as e:
        return type(e).__name__


def apply_edit(net, rec, op):
    """returns an undo closure, or None if not applicable. Edits both the net object and the recipe."""
    what, k, fac = op["what"], op["k"], op["factor"]
    els = rec["elements"]
    if what == "load":
        c = [e for e in els if e["table"] in ("sink", "source", "mass_storage")]
        hc = [e for e in els if e["table"] == "heat_consumer" and e.get("controlled_mdot_kg_per_s") is not None]
        if c:
            e = c[k % len(c)]
            col, tbl = "mdot_kg_per_s", e["table"]
        elif hc:
            e = hc[k % len(hc)]
            col, tbl = "controlled_mdot_kg_per_s", "heat_consumer"
        else:
            return None
        new = e[col] * fac
    elif what == "length":
        c = [e for e in els if e["table"] == "pipe"]
        if not c:
            return None
        e = c[k % len(c)]
        col, tbl, new = "length_km", "pipe", e["length_km"] * min(fac, 2.0)
    elif what == "temperature":
        # fluid temperature of the whole net (start values / fluid properties of the hydraulic stage)
        olds = [(j, j["tfluid_k"]) for j in rec["junction"]]
        dt = 25.0 if fac > 1 else -12.0
        for j in rec["junction"]:
            j["tfluid_k"] = j["tfluid_k"] + dt
            net.junction.at[j["index"], "tfluid_k"] = j["tfluid_k"]

        def undo_t():
            for j, v in olds:
                j["tfluid_k"] = v
                net.junction.at[j["index"], "tfluid_k"] = v
        return undo_t
    elif what == "in_service":
        c = [e for e in els if e["table"] in ("pipe", "sink", "heat_consumer", "heat_exchanger", "source")]
        if not c:
            return None
        e = c[k % len(c)]
        col, tbl, new = "in_service", e["table"], not e.get("in_service", True)
    elif what == "ext_grid_junction":
        c = [e for e in els if e["table"] == "ext_grid"]
        js = [j["index"] for j in rec["junction"]]
        if not c or len(js) < 2:
            return None
        e = c[k % len(c)]
        others = [j for j in js if j != e["junction"]]
        col, tbl, new = "junction", "ext_grid", others[(k // 7) % len(others)]
    elif what == "rewire":
        # a pipe that carries a junction-pipe valve cannot be re-wired away from the valve's junction (create_valve
        # rejects that description), so only pipes without attached valves are candidates
        with_valve = {e["element"] for e in els if e["table"] == "valve" and e.get("et") == "pi"}
        c = [e for e in els if e["table"] == "pipe" and e["index"] not in with_valve]
        js = [j["index"] for j in rec["junction"]]
        if not c or len(js) < 3:
            return None
        e = c[k % len(c)]
        others = [j for j in js if j not in (e["from_junction"], e["to_junction"])]
        col, tbl, new = "to_junction", "pipe", others[(k // 7) % len(others)]
    else:
        c = [e for e in els if e["table"] == "ext_grid" and e.get("p_bar") is not None]
        if not c:
            return None
        e = c[k % len(c)]
        col, tbl, new = "p_bar", "ext_grid", e["p_bar"] * (1.1 if fac > 1 else 0.9)
    old = e[col] if col in e else True
    e[col] = new
    net[tbl].at[e["index"], col] = new

    def undo():
        e[col] = old
        net[tbl].at[e["index"], col] = old
    return undo


def evaluate(case):
    rec = copy.deepcopy(case["recipe"])
    net = build(rec)
    user_opts = {}
    f = []
    statuses = []
    modes_seen = []
    reuse_seen = []
    reused_real = []
    reloads = []
    struct = {"now": 0, "data": -1}      # version of the net's structure / version the stored internal data belongs to
    snap0 = snapshot(net)

    def fresh():
        n2 = build(rec)
        if user_opts:
            from pandapipes.pf.pipeflow_setup import set_user_pf_options
            set_user_pf_options(n2, **copy.deepcopy(user_opts))
        return n2

    def check_run(opts, label, step):
        nonlocal snap0
        if opts.get("reuse_internal_data") and "_internal_data" in net and struct["data"] != struct["now"]:
            # stored data of another structure (an element was switched / re-wired since): reusing it is the caller's
            # responsibility, not part of the property. Data stored for the same structure - with other loads, lengths,
            # pressures, temperatures, options - IS reused: the result must not depend on it.
            opts = {k_: v_ for k_, v_ in opts.items() if k_ != "reuse_internal_data"}
        if opts.get("reuse_internal_data"):
            reuse_seen.append(step)
            if "_internal_data" in net:
                reused_real.append(step)
            struct["data"] = struct["now"]
        before = snapshot(net)
        st1 = call(net, copy.deepcopy(opts))
        d = diff_snapshot(before, snapshot(net))
        if d:
            tblname = d.split()[1] if d.startswith("table") else d.split()[0]
            f.append(Finding("no_mutation", "C12.mutation." + tblname.rstrip(":"), {"step": step, "op": label, "change": d}))
        keep = copy.deepcopy({k: net[k] for k in net.keys() if k.startswith("res_")})
        st2 = call(net, copy.deepcopy(opts))
        if st1 != st2:
            f.append(Finding("repeat", "C12.repeat.status", {"step": step, "first": st1, "second": st2, "opts": opts}))
        elif st1 == "ok":
            d = results_equal(keep, net)
            if d:
                f.append(Finding("repeat", "C12.repeat.results", {"step": step, "diff": d, "opts": opts}))
        n2 = fresh()
        st3 = call(n2, copy.deepcopy(opts))
        if st3 != st2:
            f.append(Finding("history", "C12.history.status", {"step": step, "on_used_net": st2, "on_fresh_net": st3, "opts": opts,
                                                             "previous": list(statuses)}))
        elif st2 == "ok":
            d = results_equal(net, n2)
            if d:
                f.append(Finding("history", "C12.history.results", {"step": step, "diff": d, "opts": opts, "previous": list(statuses)}))
        statuses.append(st1)
        modes_seen.append(opts.get("mode", user_opts.get("mode", "hydraulics")))
        return st1

    for step, op in enumerate(case["ops"]):
        if f:
            break
        if op["op"] == "run":
            check_run(op["opts"], "run", step)
        elif op["op"] == "edit_undo":
            undo = apply_edit(net, rec, op)
            if undo is None:
                continue
            structural = op["what"] in ("in_service", "ext_grid_junction", "rewire")
            if structural:
                struct["now"] += 1
            check_run(op["run"], "run_with_edit", step)
            undo()
            if structural:
                struct["now"] += 1
            check_run(op["run"], "run_after_undo", step)
        elif op["op"] == "reload":
            struct["now"] += 1           # a re-loaded / copied net starts without internal data of its own
            net = reload_net(net, op["how"])
            reloads.append(op["how"])
        elif op["op"] == "user_opts":
            from pandapipes.pf.pipeflow_setup import set_user_pf_options
            if op["reset"]:
                user_opts = {}
            user_opts.update(op["opts"])
            set_user_pf_options(net, reset=op["reset"], **copy.deepcopy(op["opts"]))
        elif op["op"] == "hyd_then_heat":
            o = dict(op["opts"])
            st1 = call(net, dict(o, mode="hydraulics"))
            if st1 != "ok":
                statuses.append(st1)
                continue
            from .c05 import _sol_vec
            sol = _sol_vec(net)
            before = snapshot(net)
            st2 = call(net, dict(o, mode="heat"), sol_vec=sol)
            d = diff_snapshot(before, snapshot(net))
            if d:
                f.append(Finding("no_mutation", "C12.mutation.heat_mode", {"step": step, "change": d}))
            n2 = fresh()
            st3 = call(n2, dict(o, mode="sequential"))
            statuses.append(st2)
            modes_seen.append("heat")
            if st2 != st3:
                f.append(Finding("heat_from_stored", "C12.heat_from_stored.status", {"heat": st2, "sequential": st3}))
            elif st2 == "ok":
                tcols = ("t_k", "t_from_k", "t_to_k", "t_outlet_k", "deltat_k", "qext_w")
                for t in [k for k in net.keys() if k.startswith("res_")]:
                    if t not in n2 or not len(net[t]):
                        continue
                    for c in [c for c in net[t].columns if c in tcols]:
                        x, y = net[t][c].values.astype(float), n2[t][c].values.astype(float)
                        if not np.allclose(x, y, rtol=1e-10, atol=1e-8, equal_nan=True):
                            f.append(Finding("heat_from_stored", "C12.heat_from_stored.results", {"table": t, "column": c,
                                                                                               "heat": x, "sequential": y}))
                            break
    failing = any(s != "ok" for s in statuses)
    mode_change = len(set(modes_seen)) >= 2
    labels = {"len:%d" % min(len(statuses), 9)} | {"status:" + s for s in set(statuses)} | {"mode:" + m for m in set(modes_seen)}
    if reused_real:
        labels.add("internal_data_really_reused")
    if reuse_seen:
        labels.add("reuse_internal_data_then_more_runs" if reuse_seen[0] < len(case["ops"]) - 1 else "reuse_internal_data")
    for op in case["ops"]:
        if op["op"] == "edit_undo":
            labels.add("edit:" + op["what"])
    labels |= {"between_runs:" + h for h in reloads}
    return Outcome(findings=f, labels=labels, nontrivial=len(statuses) >= 3 and (failing or mode_change),
                   sample={"recipe": abbreviate(case["recipe"]), "ops": case["ops"], "statuses": statuses})


def run_shard(coll, tier, seed, shard, nshards, known):
    run_given(case_strategy(tier), evaluate, EX[tier], derive_seed("C12", seed, shard), coll, known, shrink_s=40)


def replay(case):
    return evaluate(case)

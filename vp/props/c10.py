"""C10 - temperatures obey the pipe cooling law, energy-conserving mixing and fixed feeds.

Oracle: refphys.RefFluid heat capacity (own table parser) + the documented cooling law / junction
energy balance re-evaluated on the reported temperatures and mass flows.
"""
from __future__ import annotations

import math

import numpy as np
from hypothesis import strategies as st

from .. import genheat
from ..recipe import BRANCH_TABLES, FROM_TO, abbreviate, build, solve
from ..refphys import RefFluid
from ..runner import Finding, Outcome, derive_seed, run_given

RULE = ("cases = (district-heating recipe, options): supply tree + mirrored return tree (+ optional mesh), feeders circulation "
        "pump (pressure / mass) or ext grids, consumers in the five specification modes, heat exchangers, pipes with u in "
        "{0..20}, ambient per pipe or global, outer diameter >= inner or missing, sections 1..4, random declared directions "
        "(=> reverse flow), labels / row / creation order variants, modes sequential / bidirectional / heat, numba on/off, tight "
        "thermal tolerances. Clauses: cooling law per section (in flow direction), delivered stream temperature, mixing at "
        "every junction with >= 1 inflow, feeder temperatures, bounds. Non-trivial = a junction with >= 2 inflows of different "
        "temperature, or a pipe with flow against its declared direction, or a multi-section pipe with u > 0. "
        "Distinct = distinct recipe hash.")
ASSUMPTIONS = ["mean heat capacity of a stream between T_a and T_b is (cp(T_a) + cp(T_b)) / 2, as in the branch equation",
               "mass injected by sources / pressure-only ext grids enters at the junction temperature (it is not part of the "
               "documented junction balance)", "branches without flow are not evaluated (their outlet is set to ambient by design)",
               "section temperatures of multi-section pipes come from Pipe.get_internal_results (contiguous pipe index only)"]
EX = {"quick": 45, "thorough": 1800}
AMB = 293.15


@st.composite
def case_strategy(draw, tier):
    if draw(st.integers(0, 3)) == 0:
        # transport nets: distribution-type topologies of any library fluid (gases too) with several feed temperatures
        from .. import gen
        rec = draw(gen.transport_net(max_n=6 if tier == "quick" else 12))
        opts = draw(genheat.heat_options(modes=("sequential", "sequential", "bidirectional", "heat")))
        opts["friction_model"] = "nikuradse"      # the turbulent-only models need every branch to flow (see gen.hyd_case)
        return {"recipe": rec, "options": opts}
    rec = draw(genheat.heat_net(max_n=5 if tier == "quick" else 9, allow_oos=draw(st.booleans()),
                                labels=draw(st.booleans())))
    opts = draw(genheat.heat_options(modes=("sequential", "bidirectional", "heat")))
    return {"recipe": rec, "options": opts}


def run_thermal(net, opts):
    """solve; mode 'heat' = hydraulics first, then thermal-only from the stored solution."""
    import pandapipes as pp
    if opts["mode"] != "heat":
        return solve(net, **opts)
    r = solve(net, **dict(opts, mode="hydraulics"))
    if not r.ok:
        return r
    from .c05 import _sol_vec
    sol = _sol_vec(net)
    from ..recipe import SolveResult
    from pandapipes.pf.pipeflow_setup import PipeflowNotConverged
    try:
        pp.pipeflow(net, sol_vec=sol, **opts)
        return SolveResult("ok")
    except PipeflowNotConverged as e:
        r = SolveResult("not_converged", e)
        r.stage = "heat"
        return r
    except UserWarning as e:
        return SolveResult("rejected", e)
    except Exception as e:
        return SolveResult("crash", e)


def feeding_grids_fix_temperature(rec, opts):
    """pandapipes only accepts a temperature-fixing node that is a pure infeed: mass is fed in there and no branch delivers
    flow to it (derivatives_thermal: infeed = from-nodes that are no to-node; check_infeed_number rejects the thermal
    calculation otherwise). Which grids of a generated transport net qualify is decided by its hydraulics, so the recipe is
    normalised deterministically: a hydraulic run first, then every grid that takes mass out, carries none, or sits on a
    junction that receives flow from a branch is declared type 'p'; the others stay 'pt'. Returns the normalised recipe, or a
    string naming why the case is outside the domain."""
    import copy
    net = build(rec)
    r = solve(net, **dict(opts, mode="hydraulics"))
    if not r.ok:
        return "hydraulics_of_transport_net_failed"
    receives = set()
    for t in BRANCH_TABLES:
        if t not in net or not len(net[t]):
            continue
        a, b = FROM_TO[t]
        for idx in net[t].index:
            m = net["res_" + t].at[idx, "mdot_from_kg_per_s"]
            if np.isnan(m) or abs(m) <= 1e-10 or (t == "valve" and net.valve.at[idx, "et"] == "pi"):
                continue
            receives.add(int(net[t].at[idx, b if m > 0 else a]))
    out = copy.deepcopy(rec)
    n_t = 0
    for e in out["elements"]:
        if e["table"] == "ext_grid":
            m = net.res_ext_grid.at[e["index"], "mdot_kg_per_s"]
            if not (m < -1e-7) or int(e["junction"]) in receives:
                e["type"] = "p"
            elif e.get("in_service", True):
                n_t += 1
    if n_t == 0:
        return "no_pure_infeed_grid"
    return out


def streams(net):
    """all branch rows with thermal results: dict(table, index, up_junction, down_junction, mdot_abs, t_in, t_out)."""
    out = []
    tj = net.res_junction.t_k
    for t in BRANCH_TABLES:
        if t not in net or not len(net[t]):
            continue
        a, b = FROM_TO[t]
        res = net["res_" + t]
        for idx in net[t].index:
            if t == "valve" and net.valve.at[idx, "et"] == "pi":
                continue
            m = res.at[idx, "mdot_from_kg_per_s"]
            to = res.at[idx, "t_outlet_k"]
            if np.isnan(m) or np.isnan(to):
                continue
            fj, tjn = int(net[t].at[idx, a]), int(net[t].at[idx, b])
            up, down = (fj, tjn) if m >= 0 else (tjn, fj)
            out.append({"table": t, "index": int(idx), "up": up, "down": down, "m": abs(m), "signed_m": m,
                        "t_in": tj.at[up], "t_out": to})
    return out


def evaluate(case):
    from pandapipes.component_models import Pipe
    rec, opts = case["recipe"], case["options"]
    if rec.get("meta", {}).get("feeder") == "transport":
        rec = feeding_grids_fix_temperature(rec, opts)
        if isinstance(rec, str):
            return Outcome(discard=rec)
    net = build(rec)
    r = run_thermal(net, opts)
    if not r.ok:
        if opts["mode"] == "heat" and r.status == "not_converged" and getattr(r, "stage", "") == "heat":
            # the thermal-only run starts from the stored hydraulic solution: it has to succeed wherever the sequential run does
            r2 = solve(build(rec), **dict(opts, mode="sequential"))
            if r2.ok:
                return Outcome(findings=[Finding("heat_mode", "C10.heat_mode.fails_where_sequential_converges", {"exc": repr(r.exc)[:200]})],
                               labels={"mode:heat"}, nontrivial=True, sample={"recipe": abbreviate(rec), "options": opts})
        return Outcome(discard=r.status)
    fl = RefFluid.get(rec["fluid"])
    cp = fl.heat_capacity
    f = []
    labels = {"mode:" + opts["mode"], "numba" if opts.get("use_numba", True) else "numpy", "feeder:" + rec.get("meta", {}).get("feeder", "?"),
              "gas" if fl.is_gas else "liquid"}
    tj = net.res_junction.t_k
    sts = streams(net)
    flow_thr = 1e-8
    nontriv = False
    stats = {"cooling": 0.0, "mixing": 0.0}
    has_pi = "valve" in net and len(net.valve) and (net.valve.et == "pi").any()
    contiguous = "pipe" in net and len(net.pipe) and list(net.pipe.index) == list(range(len(net.pipe)))
    amb = opts.get("ambient_temperature", AMB)
    # ---- (a) cooling law
    for s in sts:
        if s["table"] != "pipe" or s["m"] < flow_thr:
            continue
        row = net.pipe.loc[s["index"]]
        nsec = int(row.sections)
        u = row.u_w_per_m2k
        do = row.outer_diameter_mm if not (isinstance(row.outer_diameter_mm, float) and math.isnan(row.outer_diameter_mm)) else row.inner_diameter_mm
        do = do / 1e3
        text = row.text_k if not math.isnan(row.text_k) else amb
        L = row.length_km * 1e3 / nsec
        if s["signed_m"] < 0:
            labels.add("reverse_flow")
            nontriv = True
        if nsec == 1:
            chain = [s["t_in"], s["t_out"]]
        else:
            if u > 0:
                labels.add("multi_section_cooling")
                nontriv = True
            if not contiguous:
                continue
            ir = Pipe.get_internal_results(net, np.array([s["index"]]))
            tint = list(ir["TINIT"][:, 1])
            if s["signed_m"] >= 0:
                chain = [s["t_in"]] + tint + [s["t_out"]]
            else:
                chain = [s["t_in"]] + tint[::-1] + [s["t_out"]]
        for i in range(len(chain) - 1):
            tin, tout = chain[i], chain[i + 1]
            cpm = (cp(tin) + cp(tout)) / 2
            exp = text + (tin - text) * math.exp(-u * math.pi * do * L / (cpm * s["m"]))
            err = abs(tout - exp)
            stats["cooling"] = max(stats["cooling"], err)
            if not err <= 1e-6 + 1e-9 * abs(tin - text):
                f.append(Finding("cooling", "C10.cooling." + ("multi" if nsec > 1 else "single") + (".reverse" if s["signed_m"] < 0 else ""),
                                 {"pipe": s["index"], "section_in_flow_direction": i, "t_in": tin, "t_out": tout, "expected": exp,
                                  "u": u, "d_o": do, "L": L, "t_ext": text, "mdot": s["signed_m"]}))
                break
    # ---- temperature-fixed junctions
    fixed = {}
    if "ext_grid" in net and len(net.ext_grid):
        eg = net.ext_grid
        for j, grp in eg[eg.in_service & eg.type.isin(["t", "pt"])].groupby("junction"):
            fixed[int(j)] = float(grp.t_k.mean())
    hyd_ok = ~net.res_junction.p_bar.isnull()
    for j, tk in fixed.items():
        if hyd_ok.at[j] and any(s["up"] == j and s["m"] > flow_thr for s in sts):
            if not abs(tj.at[j] - tk) <= 1e-9:
                f.append(Finding("feed", "C10.feed.ext_grid", {"junction": j, "t_k": tj.at[j], "ext_grid_t_k": tk}))
    for t in ("circ_pump_pressure", "circ_pump_mass"):
        if t in net and len(net[t]):
            for idx in net[t].index:
                typ = net[t].at[idx, "type"]
                to = net["res_" + t].at[idx, "t_outlet_k"]
                if typ in ("t", "pt") and not np.isnan(to):
                    if not abs(to - net[t].at[idx, "t_flow_k"]) <= 1e-9:
                        f.append(Finding("feed", "C10.feed.circ_pump", {t: int(idx), "t_outlet_k": to, "t_flow_k": net[t].at[idx, "t_flow_k"]}))
    # ---- (c) mixing
    # the solver treats a branch as flowing when |mdot| > 1e-10 (derivative_toolbox.get_...flow mask); streams below that
    # are left out of the balance here as well and their largest possible contribution is added to the tolerance
    inflow, slack = {}, {}
    for s in sts:
        if s["m"] > 1e-10:
            inflow.setdefault(s["down"], []).append(s)
        elif s["m"] > 0 and not np.isnan(tj.at[s["down"]]):
            slack[s["down"]] = slack.get(s["down"], 0.0) + s["m"] * cp(s["t_out"]) * abs(s["t_out"] - tj.at[s["down"]])
    for j, ins in inflow.items():
        if j in fixed or np.isnan(tj.at[j]):
            continue
        tmix = tj.at[j]
        terms = [s["m"] * (cp(s["t_out"]) + cp(tmix)) / 2 * (s["t_out"] - tmix) for s in ins]
        scale = sum(abs(s["m"] * cp(tmix) * (s["t_out"] - tmix)) for s in ins)
        resid = abs(sum(terms))
        rel = resid / scale if scale > 0 else 0.0
        stats["mixing"] = max(stats["mixing"], rel)
        big = [s for s in ins if s["m"] > flow_thr]
        temps = [s["t_out"] for s in ins]
        if len(big) >= 2 and max(s["t_out"] for s in big) - min(s["t_out"] for s in big) > 1e-3:
            labels.add("mixing_junction")
            nontriv = True
            if len(big) >= 3:
                labels.add("three_inflows")
        sl = slack.get(j, 0.0)
        if len(ins) == 1:
            if not abs(tmix - ins[0]["t_out"]) <= 1e-6 + sl / (ins[0]["m"] * cp(tmix)):
                f.append(Finding("mixing", "C10.mixing.single_inflow", {"junction": j, "t_k": tmix, "stream": ins[0]}))
        elif not resid <= 1e-6 * scale + 1e-6 + sl:
            f.append(Finding("mixing", "C10.mixing.energy_balance", {"junction": j, "t_k": tmix, "residual_w": sum(terms),
                                                                     "scale_w": scale,
                                                                     "streams": [(s["table"], s["index"], s["m"], s["t_out"]) for s in ins]}))
        if not (min(temps) - 1e-6 <= tmix <= max(temps) + 1e-6):
            f.append(Finding("mixing", "C10.mixing.outside_inflow_range", {"junction": j, "t_k": tmix, "inflow_temperatures": temps}))
    # ---- (e) bounds
    q_pos = q_neg = False
    for t in ("heat_consumer", "heat_exchanger"):
        if t in net and len(net[t]):
            q = (net.res_heat_consumer.qext_w if t == "heat_consumer" else net.heat_exchanger.qext_w).values.astype(float)
            act = ~net["res_" + t].mdot_from_kg_per_s.isnull().values
            q_pos = q_pos or bool(np.nansum(np.where(act, q, 0) > 0))
            q_neg = q_neg or bool(np.nansum(np.where(act, q, 0) < 0))
    if "heat_consumer" in net and len(net.heat_consumer):
        # consumers specified by temperatures exchange heat of either sign
        hc = net.heat_consumer
        if hc.deltat_k.notnull().any() or hc.treturn_k.notnull().any():
            q_pos = q_neg = True
    feeds = list(fixed.values())
    for t in ("circ_pump_pressure", "circ_pump_mass"):
        if t in net and len(net[t]):
            feeds += [float(v) for v in net[t].t_flow_k[net[t].in_service & net[t].type.isin(["t", "pt"])].values]
    ambs = [amb]
    if "pipe" in net and len(net.pipe):
        ambs += [float(v) for v in net.pipe.text_k.values if not math.isnan(v)]
    if feeds:
        lo, hi = min(feeds + ambs), max(feeds + ambs)
        # only where fluid from a feed really passes: a region without net flow can carry a circulation (two parallel
        # connections; its size is only determined to round-off of the pressures, 1e-3 kg/s seen) whose temperature is
        # whatever it started with - no statement about it. Reached = downstream of a temperature feed along streams that
        # carry more than 1e-6 of the largest flow.
        sig_thr = max(flow_thr, 1e-6 * max([s["m"] for s in sts] + [0.0]))
        reached = set(fixed)
        for t in ("circ_pump_pressure", "circ_pump_mass"):
            if t in net and len(net[t]):
                reached |= {int(j) for j in net[t].flow_junction[net[t].in_service].values}
        grew = True
        while grew:
            grew = False
            for s in sts:
                if s["m"] > sig_thr and s["up"] in reached and s["down"] not in reached:
                    reached.add(s["down"])
                    grew = True
        temps = [(("junction", int(j)), tj.at[j]) for j in tj.index if hyd_ok.at[j] and not np.isnan(tj.at[j]) and int(j) in reached
                 and any(s["down"] == j and s["m"] > sig_thr for s in sts)]
        temps += [((s["table"], s["index"]), s["t_out"]) for s in sts if s["m"] > sig_thr and s["up"] in reached]
        for who, tv in temps:
            if not q_neg and tv > hi + 1e-6:
                f.append(Finding("bounds", "C10.bounds.above", {"where": who, "t": tv, "max_feed_ambient": hi}))
                break
            if not q_pos and tv < lo - 1e-6:
                f.append(Finding("bounds", "C10.bounds.below", {"where": who, "t": tv, "min_feed_ambient": lo}))
                break
        if not q_pos and not q_neg:
            labels.add("pure_transport")
    out = Outcome(findings=f, labels=labels, nontrivial=nontriv,
                  sample={"recipe": abbreviate(rec), "options": opts, "max_cooling_err_k": stats["cooling"],
                          "max_rel_mixing_residual": stats["mixing"]})
    out.stats = stats
    return out


def run_shard(coll, tier, seed, shard, nshards, known):
    def ev(case):
        out = evaluate(case)
        if not out.discard and hasattr(out, "stats"):
            coll.maximum("max_cooling_law_error_k", out.stats["cooling"])
            coll.maximum("max_relative_mixing_residual", out.stats["mixing"])
        return out
    run_given(case_strategy(tier), ev, EX[tier], derive_seed("C10", seed, shard), coll, known)


def replay(case):
    return evaluate(case)

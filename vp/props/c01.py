"""C01 - mass conservation at every supplied junction and over the whole network.

Oracle: independent bookkeeping over the *result tables only* (sign conventions from the component
documentation); nothing is read from the internal pit.
"""
from __future__ import annotations

import numpy as np
from hypothesis import strategies as st

from .. import gen
from ..recipe import PRELUDES, solve_after_prelude, BRANCH_TABLES, FROM_TO, abbreviate, build, exc_sig, solve
from ..runner import Finding, Outcome, derive_seed, run_given

RULE = ("cases = (network recipe, solver options) drawn by Hypothesis: random tree + extra/parallel edges, "
        "branch types pipe/valve(ju,pi)/pump/compressor/press_control/flow_control/heat_exchanger, 1-3 ext grids, "
        "sinks/sources/storages with scalings, in_service/opened patterns, label schemes (contiguous, shuffled, sparse, "
        ">=1e5), row and creation order permutations, sectors, all library fluids, 3 friction models, numba on/off, "
        "damping; plus district-heating loops (circulation pumps, heat consumers); plus meshed lattices of 12..100 (thorough: "
        "..625) junctions, for which the per-junction bound is the same. Distinct = distinct recipe hash. "
        "Non-trivial = converged AND (a junction with >=3 incident flowing elements OR a mesh/parallel pair carries flow) "
        "AND >=2 component types carry flow.")
ASSUMPTIONS = ["sign conventions as documented: branch mdot_from positive = leaving the from junction; sink positive = "
               "consumption; source positive = injection; mass_storage positive = charging; ext_grid result negative = "
               "feed-in", "non-converged cases are discards (C05 covers failure behaviour)"]

EX = {"quick": 70, "thorough": 2500}


@st.composite
def case_strategy(draw, tier):
    kind = draw(st.sampled_from(["hyd"] * 8 + ["heat"] * 2 + ["grid"]))
    if kind == "grid":
        # the bound on the imbalance is per junction and must not grow with the size of the network
        rec = draw(gen.grid_net(max_side=10 if tier == "quick" else 25))
        opts = draw(gen.hyd_options(tight=draw(st.booleans()), friction_model="nikuradse"))
        opts["mode"] = "hydraulics"
    elif kind == "hyd":
        rec, opts = draw(gen.hyd_case(max_n=10 if tier == "quick" else 30))
        opts["mode"] = "hydraulics"
    else:
        from ..genheat import heat_net, heat_options
        rec = draw(heat_net(max_n=5 if tier == "quick" else 10, allow_makeup=True))
        opts = draw(heat_options())
    # one case in three is calculated on a net object with a history (see recipe.solve_after_prelude)
    prelude = draw(st.sampled_from([None, None, None, None] + PRELUDES[:3] * 2 + PRELUDES[3:] + PRELUDES[5:]))
    return {"recipe": rec, "options": opts, "prelude": prelude}


def balance(net, rec):
    """returns (findings, labels, stats)"""
    findings, labels = [], set()
    pj = net.res_junction.p_bar
    bal = {j: 0.0 for j in net.junction.index}
    mag = {j: 0.0 for j in net.junction.index}
    inc = {j: 0 for j in net.junction.index}
    flowing_types = set()
    maxflow = 0.0

    def add(j, v):
        bal[j] += v
        mag[j] += abs(v)
        if abs(v) > 0:
            inc[j] += 1

    pipe_end_flow = {}   # (pipe, junction) -> flow leaving junction into the pipe (from results)
    for tbl in BRANCH_TABLES:
        if tbl not in net or not len(net[tbl]):
            continue
        res = net["res_" + tbl]
        a, b = FROM_TO[tbl]
        for idx in net[tbl].index:
            mf = res.at[idx, "mdot_from_kg_per_s"]
            mt = res.at[idx, "mdot_to_kg_per_s"]
            if tbl == "valve" and net.valve.at[idx, "et"] == "pi":
                continue
            if np.isnan(mf) and np.isnan(mt):
                continue
            if not abs(mt + mf) <= 1e-9 * abs(mf) + 1e-13:
                findings.append(Finding("antisymmetry", "C01.antisym." + tbl, {"table": tbl, "index": int(idx),
                                                                               "mdot_from": mf, "mdot_to": mt}))
            fj, tj = int(net[tbl].at[idx, a]), int(net[tbl].at[idx, b])
            add(fj, -mf)
            add(tj, -mt)
            if abs(mf) > 1e-9:
                flowing_types.add(tbl)
            maxflow = max(maxflow, abs(mf))
            if tbl == "pipe":
                pipe_end_flow[(int(idx), fj)] = mf
                pipe_end_flow[(int(idx), tj)] = mt
    for tbl, sign in (("sink", -1.0), ("mass_storage", -1.0), ("source", 1.0)):
        if tbl in net and len(net[tbl]):
            res = net["res_" + tbl]
            for idx in net[tbl].index:
                v = res.at[idx, "mdot_kg_per_s"]
                if np.isnan(v):
                    continue
                add(int(net[tbl].at[idx, "junction"]), sign * v)
                if abs(v) > 1e-12:
                    flowing_types.add(tbl)
    feed = 0.0
    if "ext_grid" in net and len(net.ext_grid):
        for idx in net.ext_grid.index:
            v = net.res_ext_grid.at[idx, "mdot_kg_per_s"]
            if np.isnan(v):
                continue
            add(int(net.ext_grid.at[idx, "junction"]), -v)
            feed += -v
    scale = max(maxflow, 1e-12)
    worst = 0.0
    for j in net.junction.index:
        if np.isnan(pj.at[j]):
            # an unsupplied junction must not carry any reported flow
            if mag[j] > 1e-9 * scale + 1e-13:
                findings.append(Finding("unsupplied_flow", "C01.unsupplied_flow",
                                        {"junction": int(j), "sum_abs": mag[j]}))
            continue
        tol = 1e-9 * max(scale, mag[j]) + 1e-13
        worst = max(worst, abs(bal[j]) / max(scale, mag[j], 1e-300))
        if not abs(bal[j]) <= tol:
            findings.append(Finding("junction_balance", "C01.junction_balance",
                                    {"junction": int(j), "imbalance": bal[j], "tol": tol, "sum_abs": mag[j]}))
    # valves attached to pipes: valve flow equals the flow of the pipe end it sits on
    if "valve" in net and len(net.valve):
        grp = {}
        for idx in net.valve.index:
            if net.valve.at[idx, "et"] != "pi":
                continue
            key = (int(net.valve.at[idx, "element"]), int(net.valve.at[idx, "junction"]))
            v = net.res_valve.at[idx, "mdot_from_kg_per_s"]
            grp.setdefault(key, []).append(v)
            labels.add("pi_valve")
        for key, vals in grp.items():
            pf = pipe_end_flow.get(key, np.nan)
            live = [v for v in vals if not np.isnan(v)]
            if np.isnan(pf):
                # pipe without results: the attached valves together must not pass flow (two valves in parallel at the same
                # pipe end form a loop without resistance when both have zero loss - a circulation inside that loop is
                # undetermined and harmless, so the clause is on the sum)
                if abs(sum(live)) > 1e-9 * max(scale, max([abs(v) for v in live] + [0.0])) + 1e-13:
                    findings.append(Finding("pi_valve_flow", "C01.pi_valve_flow", {"pipe_junction": key, "valves": vals}))
                continue
            tol = 1e-9 * max(scale, abs(pf)) + 1e-13
            if not abs(sum(live) - pf) <= tol:
                findings.append(Finding("pi_valve_flow", "C01.pi_valve_flow",
                                        {"pipe_junction": key, "pipe_end_flow": pf, "valves": vals}))
    # global balance
    cons = 0.0
    tot = abs(feed)
    for tbl, sign in (("sink", 1.0), ("mass_storage", 1.0), ("source", -1.0)):
        if tbl in net and len(net[tbl]):
            v = net["res_" + tbl].mdot_kg_per_s.values
            v = v[~np.isnan(v)]
            cons += sign * v.sum()
            tot += np.abs(v).sum()
    if not abs(feed - cons) <= 1e-9 * max(tot, scale) + 1e-13:
        findings.append(Finding("global_balance", "C01.global_balance", {"feed_in": feed, "net_consumption": cons}))
    stats = {"worst_rel": worst, "max_inc": max(inc.values()) if inc else 0, "flowing_types": flowing_types}
    return findings, labels, stats


def evaluate(case):
    rec, opts = case["recipe"], case["options"]
    net, r = solve_after_prelude(rec, opts, case.get("prelude"))
    if not r.ok:
        return Outcome(discard=r.status if r.status != "crash" else "crash:" + exc_sig(r.exc))
    findings, labels, stats = balance(net, rec)
    if opts.get("nonlinear_method") == "automatic":
        # known finding: with automatic damping a variable whose error grew is reset on its own, so the
        # slack mass of a pressure-fixing junction can stay frozen while the run is accepted; the
        # imbalance is then bounded by tol_m instead of round-off. Narrow signature: automatic damping,
        # pressure-fixing junction, |imbalance| <= tol_m in force.
        egj = {int(e["junction"]) for e in rec["elements"] if e["table"] == "ext_grid" and e.get("in_service", True)}
        cpj = {int(e["flow_junction"]) for e in rec["elements"] if e["table"].startswith("circ_pump")}
        for f in findings:
            if f.clause == "junction_balance" and f.detail["junction"] in (egj | cpj) and \
                    abs(f.detail["imbalance"]) <= opts.get("tol_m", 1e-5):
                f.signature = "C01.junction_balance.automatic_frozen_slack"
    tabs = [e["table"] for e in rec["elements"]]
    edges = [e for e in rec["elements"] if e["table"] in BRANCH_TABLES and not (e["table"] == "valve" and e["et"] == "pi")]
    mesh = len(edges) >= len(rec["junction"])
    labels |= {"gas" if net.fluid.is_gas else "liquid", "numba" if opts.get("use_numba", True) else "numpy",
               opts.get("friction_model", "nikuradse"), "mode:" + opts.get("mode", "hydraulics")}
    labels.add("history:" + str(case.get("prelude")))
    if mesh:
        labels.add("mesh")
    if tabs.count("ext_grid") > 1:
        labels.add("multi_ext_grid")
    if any((not e.get("in_service", True)) or (e.get("opened") is False) for e in rec["elements"]) or \
            any(not j.get("in_service", True) for j in rec["junction"]):
        labels.add("oos_pattern")
    if any(t.startswith("circ_pump") for t in tabs) and "ext_grid" in tabs:
        labels.add("open_loop:circ_pump+ext_grid")
        cj = {e["flow_junction"] for e in rec["elements"] if e["table"].startswith("circ_pump")}
        if any(e["table"] == "ext_grid" and e["junction"] in cj for e in rec["elements"]):
            labels.add("ext_grid_on_pump_flow_junction")
    if rec.get("row_order"):
        labels.add("row_permuted")
    if max(j["index"] for j in rec["junction"]) >= 99990:
        labels.add("large_index")
    if net.res_junction.p_bar.isnull().any():
        labels.add("has_unsupplied")
    nj = len(rec["junction"])
    labels.add("junctions:" + ("<=12" if nj <= 12 else "13-40" if nj <= 40 else "41-150" if nj <= 150 else ">150"))
    for t in stats["flowing_types"]:
        labels.add("flow:" + t)
    nontriv = (stats["max_inc"] >= 3 or mesh) and len(stats["flowing_types"] - {"sink", "source", "mass_storage"}) + \
        (1 if stats["flowing_types"] & {"sink", "source", "mass_storage"} else 0) >= 2
    out = Outcome(findings=findings, labels=labels, nontrivial=nontriv, sample=
                  {"recipe": abbreviate(rec) if "grid" not in rec.get("meta", {}) else
                   {"lattice": rec["meta"]["grid"], "fluid": rec["fluid"], "junctions": len(rec["junction"]), "elements": len(rec["elements"])},
                   "options": opts, "worst_rel_imbalance": stats["worst_rel"]})
    out.worst = stats["worst_rel"]
    return out


def run_shard(coll, tier, seed, shard, nshards, known):
    def ev(case):
        out = evaluate(case)
        if not out.discard:
            coll.maximum("worst_relative_junction_imbalance", getattr(out, "worst", 0.0))
        return out
    run_given(case_strategy(tier), ev, EX[tier], derive_seed("C01", seed, shard), coll, known)


def replay(case):
    return evaluate(case)

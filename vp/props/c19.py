"""C19 - fluid and standard-type libraries return what their data and documentation say.

Oracles: own parser of the property .txt / library .csv files, own linear inter-/extrapolation,
algebraic laws of integrals, mixture identities, numpy.polyval for pump curves.
"""
from __future__ import annotations

import math
import os

import numpy as np
import pandas as pd
from hypothesis import strategies as st

from ..runner import Finding, Outcome, derive_seed, run_cases, run_given

RULE = ("(a) enumerated: every library fluid x tabulated property (every tabulated point, mid-points, extrapolation), "
        "compressibility slope vs stored derivative, heating values, every library pump type, all pipe standard types "
        "(create_pipe copies the type's parameters); (b) generated: queries (scalar / list / array / Series, inside and "
        "outside the table) on library fluids; user-defined properties of the classes InterExtra, Constant, Linear, "
        "Polynominal, Sutherland with generated tables: value laws and integral laws (antisymmetry, additivity, bounds, "
        "derivative); mixtures with generated fractions; pump types from generated lists/coefficients with scalar and "
        "array volume flows of either sign; histories of pipe creations from library types on one net (single / bulk "
        "calls, with and without per-pipe overrides of k_mm / u_w_per_m2k): un-overridden parameters and load_std_type stay "
        "at the library file's values. Non-trivial = query outside the table or non-scalar query, integral with "
        "distinct limits, mixture with >= 3 components, pump query containing a negative or clamped value, pipe history "
        "with a plain pipe created after an overridden pipe of the same type.")
ASSUMPTIONS = ["the .txt / .csv library files are the data of record", "np.polyfit is the documented regression for pump curves"]
EXHAUSTIVE_NOTE = "all library fluids x properties x tabulated points; all pump library types; all pipe standard types"
NSHARDS = {"quick": 8, "thorough": 16}
EX = {"quick": 250, "thorough": 5000}

LIB = ["water", "air", "lgas", "hgas", "hydrogen", "methane", "biomethane_pure", "biomethane_treated"]
TAB_PROPS = ["density", "viscosity", "heat_capacity"]


def pp_dir():
    import pandapipes
    return os.path.dirname(pandapipes.__file__)


def parse_txt(path):
    rows = []
    with open(path) as f:
        for line in f:
            line = line.split("#")[0].strip()
            if line:
                rows.append([float(x) for x in line.replace(",", " ").split()])
    return rows


def lin_interp(xs, ys, q):
    """own linear inter-/extrapolation (xs ascending)."""
    n = len(xs)
    if q <= xs[0]:
        i = 0
    elif q >= xs[-1]:
        i = n - 2
    else:
        i = max(k for k in range(n - 1) if xs[k] <= q)
    x0, x1, y0, y1 = xs[i], xs[i + 1], ys[i], ys[i + 1]
    return y0 + (y1 - y0) * (q - x0) / (x1 - x0)


def close(a, b, rel=1e-9, abs_=0.0):
    a, b = float(a), float(b)
    return abs(a - b) <= rel * max(abs(a), abs(b)) + abs_


def as_query(kind, vals):
    if kind == "scalar":
        return float(vals[0])
    if kind == "list":
        return [float(v) for v in vals]
    if kind == "array":
        return np.array(vals, dtype=float)
    if kind == "series":
        return pd.Series(np.array(vals, dtype=float), index=np.arange(len(vals)) + 3)
    raise ValueError(kind)


# ---------------------------------------------------------------------------------------------
def eval_lib_table(case):
    import pandapipes as pp
    fluid = pp.call_lib(case["fluid"])
    prop = case["prop"]
    rows = parse_txt(os.path.join(pp_dir(), "properties", case["fluid"], prop + ".txt"))
    xs, ys = [r[0] for r in rows], [r[1] for r in rows]
    f = []
    pts = list(xs) + [(a + b) / 2 for a, b in zip(xs[:-1], xs[1:])] + [xs[0] - 17.0, xs[-1] + 23.5, xs[-1] + 400.0]
    getter = {"density": fluid.get_density, "viscosity": fluid.get_viscosity, "heat_capacity": fluid.get_heat_capacity}[prop]
    worst = 0.0
    for q in pts:
        got = float(getter(q))
        exp = lin_interp(xs, ys, q)
        if not close(got, exp, 1e-10):
            where = "tab" if q in xs else ("extra" if q < xs[0] or q > xs[-1] else "inter")
            f.append(Finding("lib_values", "C19.lib_values.%s" % where, {"fluid": case["fluid"], "prop": prop, "q": q,
                                                                         "got": got, "expected": exp}))
            break
    arr = np.array(pts)
    got = getter(arr)
    if np.shape(got) != arr.shape:
        f.append(Finding("shape", "C19.shape.lib", {"fluid": case["fluid"], "prop": prop, "shape": np.shape(got)}))
    return Outcome(findings=f, labels={"lib_table", "fluid:" + case["fluid"]}, nontrivial=True, sample=case)


def eval_lib_consts(case):
    import pandapipes as pp
    name = case["fluid"]
    fluid = pp.call_lib(name)
    d = os.path.join(pp_dir(), "properties", name)
    f = []
    slope, offset = parse_txt(os.path.join(d, "compressibility.txt"))[0]
    der = parse_txt(os.path.join(d, "der_compressibility.txt"))[0][0]
    if not close(float(fluid.get_der_compressibility()[0] if np.ndim(fluid.get_der_compressibility()) else
                       fluid.get_der_compressibility()), der, 1e-12):
        f.append(Finding("lib_const", "C19.lib_const.der_compressibility", {"fluid": name}))
    for p in (0.0, 1.0, 1.01325, 17.5, 80.0):
        if not close(float(fluid.get_compressibility(p)), offset + slope * p, 1e-12):
            f.append(Finding("lib_values", "C19.lib_values.compressibility", {"fluid": name, "p": p}))
            break
    k1, k2 = float(fluid.get_compressibility(3.0)), float(fluid.get_compressibility(13.0))
    eff_slope = (k2 - k1) / 10.0
    if not close(eff_slope, der, 1e-9, 1e-15):
        f.append(Finding("compressibility_slope", "C19.der_compressibility." + name,
                         {"fluid": name, "slope_of_compressibility": eff_slope, "der_compressibility": der}))
    mm = parse_txt(os.path.join(d, "molar_mass.txt"))[0][0]
    if not close(float(np.ravel(fluid.get_molar_mass())[0]), mm, 1e-12):
        f.append(Finding("lib_const", "C19.lib_const.molar_mass", {"fluid": name}))
    for entry, fn in (("hhv", "higher_heating_value.txt"), ("lhv", "lower_heating_value.txt")):
        p = os.path.join(d, fn)
        if os.path.exists(p):
            v = parse_txt(p)[0][0]
            got = float(np.ravel(fluid.get_property(entry))[0])
            if not close(got, v, 1e-12):
                f.append(Finding("lib_const", "C19.lib_const." + entry, {"fluid": name, "got": got, "file": v}))
    return Outcome(findings=f, labels={"lib_consts", "fluid:" + name}, nontrivial=True, sample=case)


def eval_lib_query(case):
    import pandapipes as pp
    fluid = pp.call_lib(case["fluid"])
    prop = case["prop"]
    q = as_query(case["qkind"], case["values"])
    f = []
    if prop in TAB_PROPS:
        rows = parse_txt(os.path.join(pp_dir(), "properties", case["fluid"], prop + ".txt"))
        xs, ys = [r[0] for r in rows], [r[1] for r in rows]
        got = fluid.get_property(prop, q)
        exp = [lin_interp(xs, ys, v) for v in (case["values"] if case["qkind"] != "scalar" else case["values"][:1])]
        outside = any(v < xs[0] or v > xs[-1] for v in case["values"])
    elif prop == "compressibility":
        slope, offset = parse_txt(os.path.join(pp_dir(), "properties", case["fluid"], "compressibility.txt"))[0]
        got = fluid.get_compressibility(q)
        exp = [offset + slope * v for v in (case["values"] if case["qkind"] != "scalar" else case["values"][:1])]
        outside = False
    else:  # constants: molar_mass / der_compressibility with a query argument
        v0 = parse_txt(os.path.join(pp_dir(), "properties", case["fluid"], prop + ".txt"))[0][0]
        got = fluid.get_property(prop, q)
        exp = [v0 for _ in (case["values"] if case["qkind"] != "scalar" else case["values"][:1])]
        outside = False
    want_shape = np.shape(q)
    if np.shape(got) != want_shape:
        f.append(Finding("shape", "C19.shape.%s" % ("tab" if prop in TAB_PROPS else prop),
                         {"fluid": case["fluid"], "prop": prop, "query_shape": want_shape, "got_shape": np.shape(got),
                          "qkind": case["qkind"]}))
    else:
        g = np.ravel(np.asarray(got, dtype=float))
        for a, b in zip(g, exp):
            if not close(a, b, 1e-10):
                f.append(Finding("lib_values", "C19.lib_values.query", {"case": case, "got": a, "expected": b}))
                break
    return Outcome(findings=f, labels={"lib_query", "q:" + case["qkind"], "outside" if outside else "inside"},
                   nontrivial=outside or case["qkind"] != "scalar", sample=case)


# ---------------------------------------------------------------------------------------------
def make_prop(spec):
    from pandapipes.properties import fluids as fl
    k = spec["class"]
    if k == "interextra":
        return fl.FluidPropertyInterExtra(np.array(spec["x"]), np.array(spec["y"]))
    if k == "constant":
        return fl.FluidPropertyConstant(spec["value"])
    if k == "linear":
        return fl.FluidPropertyLinear(spec["slope"], spec["offset"])
    if k == "polynominal":
        return fl.FluidPropertyPolynominal(np.array(spec["x"]), np.array(spec["y"]), spec["degree"])
    if k == "sutherland":
        return fl.FluidPropertySutherland(spec["eta0"], spec["t0"], spec["ts"])
    raise ValueError(k)


def ref_value(spec, q):
    k = spec["class"]
    if k == "interextra":
        return lin_interp(spec["x"], spec["y"], q)
    if k == "constant":
        return spec["value"]
    if k == "linear":
        return spec["offset"] + spec["slope"] * q
    if k == "polynominal":
        return float(np.polyval(np.polyfit(spec["x"], spec["y"], spec["degree"]), q))
    if k == "sutherland":
        return spec["eta0"] * (spec["t0"] + spec["ts"]) / (spec["ts"] + q) * (q / spec["t0"]) ** 1.5
    raise ValueError(k)


def call(fn, *a):
    try:
        return fn(*a), None
    except Exception as e:  # the library raising on a valid query is a finding of the clause under test
        return None, e


def eval_user_prop(case):
    spec = case["spec"]
    prop = make_prop(spec)
    f = []
    labels = {"user_prop", "class:" + spec["class"]}
    # ---- values
    q = as_query(case["qkind"], case["values"])
    got, exc = call(prop.get_at_value, q)
    if exc is not None:
        f.append(Finding("value", "C19.user.value_raises.%s.%s" % (spec["class"], case["qkind"]), {"exc": repr(exc), "case": case}))
    else:
        if np.shape(got) != np.shape(q):
            f.append(Finding("shape", "C19.shape.user.%s" % spec["class"], {"qkind": case["qkind"], "query_shape": np.shape(q),
                                                                           "got_shape": np.shape(got)}))
        else:
            vals = case["values"] if case["qkind"] != "scalar" else case["values"][:1]
            for a, v in zip(np.ravel(np.asarray(got, dtype=float)), vals):
                e = ref_value(spec, v)
                if not close(a, e, 1e-7, 1e-12):
                    f.append(Finding("value", "C19.user.value.%s" % spec["class"], {"q": v, "got": a, "expected": e}))
                    break
    nontriv = case["qkind"] != "scalar"
    # ---- integrals
    if spec["class"] != "sutherland":
        a, b, c = case["limits"]
        seg_ok = True
        if spec["class"] == "interextra":
            # additivity / derivative only within one table segment (the class integrates by the end-point mean)
            xs = spec["x"]
            seg_ok = not any(min(a, b, c) < x < max(a, b, c) for x in xs)
        ik = case["ikind"]

        def I(up, lo):
            return call(prop.get_at_integral_value, as_query(ik, [up]), as_query(ik, [lo]))
        iab, e1 = I(b, a)
        iba, e2 = I(a, b)
        ibc, e3 = I(c, b)
        iac, e4 = I(c, a)
        exc = e1 or e2 or e3 or e4
        if exc is not None:
            f.append(Finding("integral", "C19.integral.raises.%s.%s" % (spec["class"], ik), {"exc": repr(exc)}))
        else:
            iab, iba, ibc, iac = [float(np.ravel(np.asarray(v, dtype=float))[0]) for v in (iab, iba, ibc, iac)]
            fa, fb = ref_value(spec, a), ref_value(spec, b)
            scale = max(abs(fa), abs(fb), 1e-300) * max(abs(b - a), abs(c - a), abs(c - b), 1e-300)
            # an integral is a difference of antiderivative values F(b) - F(a); for limits that (almost) coincide it is pure
            # cancellation, with absolute round-off eps * |F|. |F| is bounded through the terms of the antiderivative.
            X = max(abs(a), abs(b), abs(c), 1.0)
            if spec["class"] == "polynominal":
                co = np.polyfit(spec["x"], spec["y"], spec["degree"])
                fterm = float(sum(abs(ck) * X ** (len(co) - i) for i, ck in enumerate(co)))
            else:
                fterm = max(abs(fa), abs(fb), abs(ref_value(spec, c))) * X
            cancel = 1e-14 * fterm
            if not abs(iab + iba) <= 1e-9 * scale:
                f.append(Finding("integral", "C19.integral.antisymmetry.%s" % spec["class"],
                                 {"a": a, "b": b, "I(a,b)": iab, "I(b,a)": iba}))
            if seg_ok and not abs(iab + ibc - iac) <= 1e-7 * scale + cancel + 1e-300:
                f.append(Finding("integral", "C19.integral.additivity.%s" % spec["class"],
                                 {"a": a, "b": b, "c": c, "I(a,b)": iab, "I(b,c)": ibc, "I(a,c)": iac}))
            lo, hi = min(a, b), max(a, b)
            grid = list(np.linspace(lo, hi, 41)) + [x for x in spec.get("x", []) if lo <= x <= hi]
            fv = [ref_value(spec, g) for g in grid]
            fmin, fmax = min(fv), max(fv)
            ilh = iab if b >= a else iba   # integral from lo to hi
            tolb = 1e-7 * scale + cancel
            if not (fmin * (hi - lo) - tolb <= ilh <= fmax * (hi - lo) + tolb):
                f.append(Finding("integral", "C19.integral.bounds.%s" % spec["class"],
                                 {"lo": lo, "hi": hi, "I": ilh, "fmin": fmin, "fmax": fmax}))
            if seg_ok and abs(b - a) > 1e-6:
                h = 1e-4 * max(1.0, abs(b))
                if spec["class"] == "interextra" and any(min(a, b - h) < x < max(a, b + h) for x in spec["x"]):
                    pass
                else:
                    ip, e5 = I(b + h, a)
                    im, e6 = I(b - h, a)
                    if e5 is None and e6 is None:
                        der = (float(np.ravel(ip)[0]) - float(np.ravel(im)[0])) / (2 * h)
                        if not close(der, fb, 1e-4, 1e-6 * max(abs(fa), abs(fb), 1e-300)):
                            f.append(Finding("integral", "C19.integral.derivative.%s" % spec["class"],
                                             {"a": a, "b": b, "dI/db": der, "f(b)": fb}))
            nontriv = nontriv or abs(b - a) > 0
            labels.add("integral:" + ik)
    return Outcome(findings=f, labels=labels, nontrivial=nontriv, sample=case)


# ---------------------------------------------------------------------------------------------
def eval_mixture(case):
    from pandapipes.properties import properties_toolbox as pt
    x = np.array(case["molar"], dtype=float)
    x = x / x.sum()
    mm = np.array(case["molar_mass"], dtype=float)
    vals = np.array(case["values"], dtype=float)
    f = []
    w = pt.calculate_mass_fraction_from_molar_fraction(x, mm)
    if not close(w.sum(), 1.0, 1e-12):
        f.append(Finding("mixture", "C19.mixture.mass_fractions_sum", {"sum": float(w.sum())}))
    # inverse: molar fractions recovered from mass fractions
    back = (w / mm) / (w / mm).sum()
    if not np.allclose(back, x, rtol=1e-10, atol=1e-14):
        f.append(Finding("mixture", "C19.mixture.inverse", {"x": x, "back": back}))
    m1 = pt.calculate_mixture_molar_mass(mm, components_molar_proportions=x)
    m2 = pt.calculate_mixture_molar_mass(mm, components_mass_proportions=w)
    if not close(m1, m2, 1e-10):
        f.append(Finding("mixture", "C19.mixture.molar_mass_forms", {"molar": m1, "mass": m2}))
    pos = x > 0

    def within(name, v, comp):
        lo, hi = comp[pos].min(), comp[pos].max()
        if not (lo - 1e-9 * abs(lo) <= v <= hi + 1e-9 * abs(hi)):
            f.append(Finding("mixture", "C19.mixture.bounds." + name, {"value": float(v), "lo": float(lo), "hi": float(hi)}))
    within("molar_mass", m1, mm)
    within("density", pt.calculate_mixture_density(vals, w), vals)
    within("heat_capacity", pt.calculate_mixture_heat_capacity(vals, w), vals)
    within("viscosity", pt.calculate_mixture_viscosity(vals, x, mm), vals)
    # 2-d form equals the 1-d form per column
    v2 = np.vstack([vals, vals * 1.5]).T  # shape (n_comp, 2)
    for name, fn, args in (("density", pt.calculate_mixture_density, (w,)),
                           ("heat_capacity", pt.calculate_mixture_heat_capacity, (w,)),
                           ("viscosity", pt.calculate_mixture_viscosity, (x, mm))):
        r2 = fn(v2, *args)
        r1 = [fn(v2[:, 0].copy(), *args), fn(v2[:, 1].copy(), *args)]
        if np.shape(r2) != (2,) or not np.allclose(r2, r1, rtol=1e-12):
            f.append(Finding("mixture", "C19.mixture.2d." + name, {"2d": r2, "1d": r1}))
    # permutation invariance
    perm = np.array(case["perm"])
    if not close(pt.calculate_mixture_density(vals[perm], w[perm]), pt.calculate_mixture_density(vals, w), 1e-12):
        f.append(Finding("mixture", "C19.mixture.permutation", {}))
    return Outcome(findings=f, labels={"mixture", "ncomp:%d" % len(x)}, nontrivial=len(x) >= 3, sample=case)


# ---------------------------------------------------------------------------------------------
def eval_pump(case):
    import pandapipes as pp
    from pandapipes.std_types.std_type_class import PumpStdType
    f = []
    src = case["source"]
    if src["kind"] == "lib":
        net = pp.create_empty_network(fluid="water")
        st_ = net.std_types["pump"][src["name"]]
        path = os.path.join(pp_dir(), "std_types", "library", "Pump", src["name"] + ".csv")
        rows = [ln.strip().split(";") for ln in open(path) if ln.strip()]
        xs = [float(r[0]) for r in rows[1:]]
        ys = [float(r[1]) for r in rows[1:]]
        deg = int(float(rows[1][2]))
        reg = np.polyfit(xs, ys, deg)
    elif src["kind"] == "list":
        st_ = PumpStdType.from_list("gen", np.array(src["x"]), np.array(src["y"]), src["degree"])
        reg = np.polyfit(src["x"], src["y"], src["degree"])
    else:
        st_ = PumpStdType("gen", np.array(src["coeffs"], dtype=float))
        reg = np.array(src["coeffs"], dtype=float)
    if not np.allclose(st_.reg_par, reg, rtol=1e-9, atol=1e-12):
        f.append(Finding("pump", "C19.pump.reg_par", {"got": st_.reg_par, "own_fit": reg}))
    vs = case["vdot"]
    exp = [max(0.0, float(np.polyval(reg, v * 3600.0))) if v >= 0 else 0.0 for v in vs]
    scal = []
    for v, e in zip(vs, exp):
        g, exc = call(st_.get_pressure, float(v))
        if exc is not None:
            f.append(Finding("pump", "C19.pump.scalar_raises", {"v": v, "exc": repr(exc)}))
            break
        scal.append(float(g))
        if not close(g, e, 1e-9, 1e-12) or g < 0:
            f.append(Finding("pump", "C19.pump.scalar_value", {"v": v, "got": float(g), "expected": e}))
            break
    arr = np.array(vs, dtype=float)
    g, exc = call(st_.get_pressure, arr)
    mixed = any(v < 0 for v in vs) and any(v >= 0 for v in vs)
    clamped = any(np.polyval(reg, v * 3600.0) < 0 for v in vs if v >= 0)
    if exc is not None:
        f.append(Finding("pump", "C19.pump.array_raises", {"vdot": vs, "exc": repr(exc)}))
    elif np.shape(g) != arr.shape:
        f.append(Finding("pump", "C19.pump.array_shape", {"shape": np.shape(g)}))
    elif len(scal) == len(vs) and not np.allclose(np.asarray(g, dtype=float), exp, rtol=1e-9, atol=1e-12):
        f.append(Finding("pump", "C19.pump.array_vs_scalar", {"vdot": vs, "array": g, "expected": exp}))
    labels = {"pump", "src:" + src["kind"]} | ({"mixed_sign"} if mixed else set()) | ({"clamped"} if clamped else set())
    upd = case.get("update")
    if upd and not f:
        # the type is re-parameterised after it has been queried: it must follow its NEW regression polynomial
        if upd["how"] == "update_std_type":
            st_.update_std_type(np.array(upd["x"]), np.array(upd["y"]), upd["degree"])
            reg2 = np.polyfit(upd["x"], upd["y"], upd["degree"])
        else:
            reg2 = np.polyfit(upd["x"], upd["y"], upd["degree"])
            st_.reg_par = np.array(reg2)
        labels.add("re-parameterised_after_query:" + upd["how"])
        exp2 = [max(0.0, float(np.polyval(reg2, v * 3600.0))) if v >= 0 else 0.0 for v in vs]
        for v, e in zip(vs, exp2):
            g, exc = call(st_.get_pressure, float(v))
            if exc is not None or not close(g, e, 1e-9, 1e-12):
                f.append(Finding("pump", "C19.pump.value_after_update", {"v": v, "got": repr(g), "expected": e, "how": upd["how"],
                                                                         "exc": repr(exc)}))
                break
        g, exc = call(st_.get_pressure, arr)
        if not f and (exc is not None or np.shape(g) != arr.shape or not np.allclose(np.asarray(g, dtype=float), exp2, rtol=1e-9, atol=1e-12)):
            f.append(Finding("pump", "C19.pump.array_after_update", {"vdot": vs, "array": repr(g), "expected": exp2, "exc": repr(exc)}))
    return Outcome(findings=f, labels=labels, nontrivial=mixed or clamped or any(v < 0 for v in vs), sample=case)


def eval_pipe_types(case):
    import pandapipes as pp
    net = pp.create_empty_network(fluid="water")
    path = os.path.join(pp_dir(), "std_types", "library", "Pipe.csv")
    lines = [ln.rstrip("\n").split(";") for ln in open(path) if ln.strip()]
    hdr = lines[0]
    f = []
    j = pp.create_junctions(net, 2, 5, 300)
    names = []
    for row in lines[1:]:
        d = dict(zip(hdr, row))
        names.append(d["std_type"])
        if d["std_type"] not in net.std_types["pipe"]:
            f.append(Finding("pipe_types", "C19.pipe_types.missing", {"type": d["std_type"]}))
            continue
        idx = pp.create_pipe(net, j[0], j[1], d["std_type"], 0.1)
        r = net.pipe.loc[idx]

        def num(s):
            return float(s) if s not in ("", None) else float("nan")
        exp = {"inner_diameter_mm": num(d["inner_diameter_mm"]), "outer_diameter_mm": num(d["outer_diameter_mm"]),
               "k_mm": num(d["k_mm"])}
        u2, u1 = num(d["u_w_per_m2k"]), num(d["u_w_per_mk"])
        exp["u_w_per_m2k"] = u2 if not math.isnan(u2) else (u1 / (exp["outer_diameter_mm"] * math.pi) * 1000.0
                                                               if not math.isnan(u1) else float("nan"))
        for k, v in exp.items():
            g = float(r[k])
            if not ((math.isnan(g) and math.isnan(v)) or close(g, v, 1e-12)):
                f.append(Finding("pipe_types", "C19.pipe_types." + k, {"type": d["std_type"], "got": g, "expected": v}))
        if r["std_type"] != d["std_type"]:
            f.append(Finding("pipe_types", "C19.pipe_types.std_type", {"type": d["std_type"]}))
    extra = set(net.std_types["pipe"]) - set(names)
    if extra:
        f.append(Finding("pipe_types", "C19.pipe_types.not_in_library_file", {"types": sorted(extra)[:5]}))
    out = Outcome(findings=f[:5], labels={"pipe_types"}, nontrivial=True, sample={"kind": "pipe_types", "n_types": len(names)})
    out.n_types = len(names)
    return out


_PIPE_LIB = None


def pipe_library():
    """Pipe.csv parsed here: {type name: {inner_diameter_mm, outer_diameter_mm, k_mm, u_w_per_m2k}} (expected pipe columns)."""
    global _PIPE_LIB
    if _PIPE_LIB is None:
        path = os.path.join(pp_dir(), "std_types", "library", "Pipe.csv")
        lines = [ln.rstrip("\n").split(";") for ln in open(path) if ln.strip()]
        hdr = lines[0]

        def num(s_):
            return float(s_) if s_ not in ("", None) else float("nan")
        lib = {}
        for row in lines[1:]:
            d = dict(zip(hdr, row))
            exp = {"inner_diameter_mm": num(d["inner_diameter_mm"]), "outer_diameter_mm": num(d["outer_diameter_mm"]),
                   "k_mm": num(d["k_mm"])}
            u2, u1 = num(d["u_w_per_m2k"]), num(d["u_w_per_mk"])
            exp["u_w_per_m2k"] = u2 if not math.isnan(u2) else (u1 / (exp["outer_diameter_mm"] * math.pi) * 1000.0
                                                                   if not math.isnan(u1) else float("nan"))
            lib[d["std_type"]] = exp
        _PIPE_LIB = lib
    return _PIPE_LIB


def eval_pipe_type_history(case):
    """A sequence of pipe creations from library types on ONE net, some with per-pipe overrides of k_mm / u_w_per_m2k
    (single and bulk calls): every parameter that was not overridden must still be the library value - for the pipe
    itself, for pipes of the same type created later, and for what load_std_type returns afterwards."""
    import pandapipes as pp
    from pandapipes.std_types.std_types import load_std_type
    lib = pipe_library()
    names = sorted(lib)
    net = pp.create_empty_network(fluid=case.get("fluid", "water"))
    j = pp.create_junctions(net, 3, 5, 300)
    f = []
    overridden_before = set()
    labels = {"pipe_type_history"}
    for step, op in enumerate(case["ops"]):
        name = names[op["type"] % len(names)]
        kw = {}
        if op.get("k_mm") is not None:
            kw["k_mm"] = op["k_mm"]
        if op.get("u_w_per_m2k") is not None:
            kw["u_w_per_m2k"] = op["u_w_per_m2k"]
        if op["call"] == "foreign_edit":
            # another net of the same process: the user changes ITS copy of the type in place; the first net, and nets
            # created later, must keep the library values
            other = pp.create_empty_network(fluid=case.get("fluid", "water"))
            t_other = load_std_type(other, name, "pipe")
            t_other["inner_diameter_mm"] = 1.0
            t_other["k_mm"] = 99.0
            for pt in other.std_types.get("pump", {}).values():
                if hasattr(pt, "reg_par") and isinstance(pt.reg_par, np.ndarray):
                    pt.reg_par *= 0.5
            labels.add("type_edited_in_another_net")
            third = pp.create_empty_network(fluid=case.get("fluid", "water"))
            j3 = pp.create_junctions(third, 2, 5, 300)
            r3 = third.pipe.loc[pp.create_pipe(third, j3[0], j3[1], name, 0.1)]
            for k_, v_ in lib[name].items():
                g_ = float(r3[k_])
                if not ((math.isnan(g_) and math.isnan(v_)) or close(g_, v_, 1e-12)):
                    f.append(Finding("pipe_types", "C19.pipe_type_history.new_net_after_foreign_edit." + k_,
                                     {"type": name, "step": step, "got": g_, "library_file": v_}))
            idx = []
        elif op["call"] == "single":
            idx = [pp.create_pipe(net, j[0], j[1], name, 0.1, **kw)]
        elif op["call"] == "bulk":
            idx = list(pp.create_pipes(net, [j[0], j[1]], [j[1], j[2]], name, 0.1, **kw))
        else:
            idx = []
        exp = dict(lib[name])
        exp.update(kw)
        if name in overridden_before and not kw:
            labels.add("plain_after_override_of_same_type")
        for i in idx:
            r = net.pipe.loc[i]
            for k, v in exp.items():
                g = float(r[k])
                if not ((math.isnan(g) and math.isnan(v)) or close(g, v, 1e-12)):
                    f.append(Finding("pipe_types", "C19.pipe_type_history." + k,
                                     {"type": name, "step": step, "call": op["call"], "overrides": kw, "got": g, "expected": v,
                                      "same_type_overridden_before": name in overridden_before}))
        st_ = load_std_type(net, name, "pipe")
        for k in ("inner_diameter_mm", "outer_diameter_mm", "k_mm"):
            g, v = float(st_[k]), lib[name][k]
            if not ((math.isnan(g) and math.isnan(v)) or close(g, v, 1e-12)):
                f.append(Finding("pipe_types", "C19.pipe_type_history.std_type_changed." + k,
                                 {"type": name, "step": step, "got": g, "library_file": v}))
        g = st_.get("u_w_per_m2k", float("nan"))
        g = float("nan") if g is None else float(g)
        v = lib[name]["u_w_per_m2k"]
        u1 = st_.get("u_w_per_mk", float("nan"))
        if (u1 is None or math.isnan(float(u1))) and not ((math.isnan(g) and math.isnan(v)) or close(g, v, 1e-12)):
            f.append(Finding("pipe_types", "C19.pipe_type_history.std_type_changed.u_w_per_m2k",
                             {"type": name, "step": step, "got": g, "library_file": v}))
        if kw:
            overridden_before.add(name)
        if f:
            break
    return Outcome(findings=f[:3], labels=labels, nontrivial="plain_after_override_of_same_type" in labels,
                   sample={"kind": "pipe_type_history", "ops": case["ops"]})


EVAL = {"pipe_type_history": eval_pipe_type_history, "lib_table": eval_lib_table, "lib_consts": eval_lib_consts, "lib_query": eval_lib_query,
        "user_prop": eval_user_prop, "mixture": eval_mixture, "pump": eval_pump, "pipe_types": eval_pipe_types}


def evaluate(case):
    return EVAL[case["kind"]](case)


def enumerated_cases():
    for fl_ in LIB:
        for p in TAB_PROPS:
            yield {"kind": "lib_table", "fluid": fl_, "prop": p}
        yield {"kind": "lib_consts", "fluid": fl_}
    for name in ("P1", "P2", "P3"):
        yield {"kind": "pump", "source": {"kind": "lib", "name": name},
               "vdot": [0.0, 1e-4, 0.003, 0.01, 0.02, 0.05, -0.001, 1.0]}
    yield {"kind": "pipe_types"}


# ---------------------------------------------------------------------------------------------
def f64(lo, hi):
    return st.floats(lo, hi, allow_nan=False, allow_infinity=False)


QK = st.sampled_from(["scalar", "array", "series"])  # the property quantifies over scalars, arrays and Series


@st.composite
def gen_case(draw):
    kind = draw(st.sampled_from(["lib_query", "lib_query", "user_prop", "user_prop", "user_prop", "mixture", "pump", "pump",
                                 "pipe_type_history"]))
    if kind == "pipe_type_history":
        # few distinct types so that the same type is used again after a pipe of it was created with overrides
        pool = draw(st.lists(st.integers(0, 400), min_size=1, max_size=3))
        ops = []
        for _ in range(draw(st.integers(2, 6))):
            ov = draw(st.sampled_from(["none", "none", "k", "u", "ku"]))
            ops.append({"type": draw(st.sampled_from(pool)), "call": draw(st.sampled_from(["single", "single", "bulk", "load_only", "foreign_edit"])),
                        "k_mm": draw(st.sampled_from([0.01, 0.7, 3.0])) if "k" in ov else None,
                        "u_w_per_m2k": draw(st.sampled_from([0.5, 7.0, 30.0])) if "u" in ov else None})
        return {"kind": kind, "fluid": draw(st.sampled_from(["water", "lgas"])), "ops": ops}
    if kind == "lib_query":
        prop = draw(st.sampled_from(TAB_PROPS + ["compressibility", "molar_mass", "der_compressibility"]))
        lo, hi = (150.0, 700.0) if prop in TAB_PROPS else (0.0, 120.0)
        return {"kind": kind, "fluid": draw(st.sampled_from(LIB)), "prop": prop, "qkind": draw(QK),
                "values": draw(st.lists(f64(lo, hi), min_size=1, max_size=5))}
    if kind == "user_prop":
        cls = draw(st.sampled_from(["interextra", "constant", "linear", "polynominal", "sutherland"]))
        if cls in ("interextra", "polynominal"):
            n = draw(st.integers(3, 7))
            x0 = draw(f64(200.0, 300.0))
            steps = draw(st.lists(f64(5.0, 60.0), min_size=n - 1, max_size=n - 1))
            xs = [x0]
            for s in steps:
                xs.append(xs[-1] + s)
            ys = draw(st.lists(f64(0.5, 2000.0), min_size=n, max_size=n))
            spec = {"class": cls, "x": xs, "y": ys}
            if cls == "polynominal":
                spec["degree"] = draw(st.integers(1, min(3, n - 2)))
            lo, hi = xs[0] - 50.0, xs[-1] + 50.0
        elif cls == "constant":
            spec = {"class": cls, "value": draw(f64(-1e3, 1e6))}
            lo, hi = 0.0, 500.0
        elif cls == "linear":
            spec = {"class": cls, "slope": draw(f64(-5.0, 5.0)), "offset": draw(f64(-100.0, 1000.0))}
            lo, hi = 0.0, 500.0
        else:
            spec = {"class": cls, "eta0": draw(f64(1e-6, 1e-4)), "t0": draw(f64(250.0, 320.0)), "ts": draw(f64(50.0, 300.0))}
            lo, hi = 200.0, 600.0
        lim = draw(st.lists(f64(lo, hi), min_size=3, max_size=3))
        if cls == "interextra" and draw(st.booleans()):
            # limits inside one table segment so that additivity / derivative are asserted
            k = draw(st.integers(0, len(spec["x"]) - 2))
            a0, a1 = spec["x"][k], spec["x"][k + 1]
            lim = [a0 + (a1 - a0) * t for t in draw(st.lists(f64(0.01, 0.99), min_size=3, max_size=3))]
        return {"kind": kind, "spec": spec, "qkind": draw(QK), "values": draw(st.lists(f64(lo, hi), min_size=1, max_size=4)),
                "limits": lim, "ikind": draw(st.sampled_from(["scalar", "array", "series"]))}
    if kind == "mixture":
        n = draw(st.integers(2, 6))
        return {"kind": kind, "molar": draw(st.lists(f64(0.01, 1.0), min_size=n, max_size=n)),
                "molar_mass": draw(st.lists(f64(2.0, 60.0), min_size=n, max_size=n)),
                "values": draw(st.lists(f64(0.05, 1500.0), min_size=n, max_size=n)),
                "perm": list(draw(st.permutations(list(range(n)))))}
    # pump
    srck = draw(st.sampled_from(["lib", "list", "coeffs"]))
    if srck == "lib":
        src = {"kind": "lib", "name": draw(st.sampled_from(["P1", "P2", "P3"]))}
        vmax = 0.05
    elif srck == "list":
        n = draw(st.integers(3, 6))
        xs = sorted(draw(st.lists(f64(0.0, 200.0), min_size=n, max_size=n, unique_by=lambda v: round(v, 1))))
        p0 = draw(f64(1.0, 10.0))
        ys = [p0 * (1 - (x / 250.0) ** 2) + draw(f64(-0.05, 0.05)) for x in xs]
        src = {"kind": "list", "x": xs, "y": ys, "degree": draw(st.integers(1, 2))}
        vmax = 0.1
    else:
        src = {"kind": "coeffs", "coeffs": [draw(f64(-2e-3, -1e-5)), draw(f64(-0.05, 0.05)), draw(f64(0.5, 10.0))]}
        vmax = 0.1
    vs = draw(st.lists(st.one_of(f64(-vmax, vmax), f64(0.0, vmax), st.just(0.0)), min_size=1, max_size=6))
    upd = None
    if draw(st.booleans()):
        n2 = draw(st.integers(3, 6))
        xs2 = sorted(draw(st.lists(f64(0.0, 300.0), min_size=n2, max_size=n2, unique=True)))
        if min(b - a for a, b in zip(xs2, xs2[1:])) > 1.0:
            p2 = draw(f64(1.0, 12.0))
            upd = {"how": draw(st.sampled_from(["update_std_type", "assign_reg_par"])), "x": xs2,
                   "y": [p2 * (1 - (x / 320.0) ** 2) + draw(f64(-0.05, 0.05)) for x in xs2], "degree": draw(st.integers(1, 2))}
    return {"kind": "pump", "source": src, "vdot": vs, "update": upd}


def run_shard(coll, tier, seed, shard, nshards, known):
    def ev(case):
        out = evaluate(case)
        if hasattr(out, "n_types"):
            coll.bump("pipe_std_types_checked", out.n_types)
        return out
    if shard == 0:
        run_cases(enumerated_cases(), ev, coll, known)
    run_given(gen_case(), ev, EX[tier], derive_seed("C19", seed, shard), coll, known)


def replay(case):
    return evaluate(case)

"""C02 - every flowing branch obeys the documented pressure-loss law.

Oracle: refphys.branch_state (independent transcription of the documentation), evaluated on the
reported end pressures, mass flow and temperatures of every pipe (per section for multi-section
pipes via Pipe.get_internal_results), valve and heat exchanger.
"""
from __future__ import annotations

import math

import numpy as np
from hypothesis import strategies as st

from .. import gen, genheat
from ..recipe import PRELUDES, solve_after_prelude, abbreviate, build, solve
from ..refphys import RefFluid, branch_state
from ..runner import Finding, Outcome, derive_seed, run_given

RULE = ("cases = (hydraulic network recipe, solver options with tight tolerances) from the generator of C01 (all fluids, "
        "3 friction models, numba on/off, heights, loss coefficients, sections 1..4, pi/ju valves, heat exchangers, reverse "
        "flow against the declared direction, label / row / creation order variants), plus bidirectional heating loops (the "
        "coupled solution must satisfy the law with the reported temperatures). Every in-service pipe (section), open valve "
        "and heat exchanger with results is evaluated. Non-trivial = at least one branch with |mdot| > 1e-6 that has two of "
        "{height difference, zeta > 0, flow against declared direction, gas, non-default friction model, several sections}. "
        "Distinct = distinct recipe hash.")
ASSUMPTIONS = ["Nikuradse for gases uses the constant 1.14 form (1/(2 log10(d/k)+1.14)^2), for liquids the documented 3.71 form",
               "in mode='hydraulics' the branch temperatures are the junctions' tfluid_k (reported as t_from_k / t_outlet_k)",
               "internal section values of multi-section pipes come from Pipe.get_internal_results (cross-checked by C09's "
               "section<->series rewrite); used only with contiguous pipe index as that function requires"]
EX = {"quick": 60, "thorough": 2500}
RES_TOL = 1e-7


@st.composite
def case_strategy(draw, tier):
    if draw(st.integers(0, 5)) == 0:
        rec = draw(genheat.heat_net(max_n=4, max_sections=1, feeders=["cpp", "eg"], labels=draw(st.booleans())))
        opts = draw(genheat.heat_options(modes=("bidirectional",)))
        return {"recipe": rec, "options": opts, "prelude": None}
    rec, opts = draw(gen.hyd_case(max_n=9 if tier == "quick" else 25, tight=True, allow_ctrl=draw(st.booleans())))
    opts["mode"] = "hydraulics"
    # one case in three is calculated on a net object with a history (see recipe.solve_after_prelude)
    prelude = draw(st.sampled_from([None, None, None, None] + PRELUDES[:3] * 2 + PRELUDES[3:] + PRELUDES[5:]))
    return {"recipe": rec, "options": opts, "prelude": prelude}


def _close(a, b, rel, abs_=0.0):
    return abs(a - b) <= rel * max(abs(a), abs(b)) + abs_


def check_branch(f, tag, model, fl, m, res, geom, reported, stats, detail):
    """geom: dict(hf, ht, length, d, k, zeta); res: pf, pt, t_from, t_out; reported: dict name->value."""
    st_ = branch_state(fl, model, m, res["pf"], res["pt"], geom["hf"], geom["ht"], res["t_from"], res["t_out"],
                       geom["length"], geom["d"], geom["k"], geom["zeta"])
    tol = RES_TOL + 1e-8 * abs(st_["loss"])
    stats["max_residual"] = max(stats["max_residual"], abs(st_["residual"]))
    if not abs(st_["residual"]) <= tol:
        f.append(Finding("momentum", "C02.momentum.%s.%s.%s" % (tag, "gas" if fl.is_gas else "liquid", model),
                         dict(detail, residual_bar=st_["residual"], loss_bar=st_["loss"], hydro_bar=st_["hydro"], mdot=m)))
    am = abs(m)
    if am > 1e-7:
        lag = 4e-9 / am
        for name, key, rel in (("reynolds", "reynolds", 1e-7 + lag), ("lambda", "lam", 1e-7 + 2 * lag)):
            if name in reported and not math.isnan(reported[name]):
                if geom["length"] == 0 and name == "lambda" and model == "colebrook":
                    continue   # documented: for zero length the initial guess is returned
                # values of tables with multi-section pipes are averaged through a cumulative sum over all rows
                # (numpy engine): absolute round-off ~ eps * largest value of the column (lambda = 64/Re of a
                # branch with 1e-13 kg/s is ~1e9)
                if not _close(reported[name], st_[key], rel, 1e-15 * stats.get("colmax_" + name, 0.0)):
                    f.append(Finding("derived", "C02.derived.%s.%s.%s" % (name, tag, model),
                                     dict(detail, reported=reported[name], expected=st_[key], mdot=m)))
    for name, key in ((("v_mean_m_per_s", "v_mean"), ("vdot_m3_per_s", "vdot"), ("vdot_norm_m3_per_s", "vdot_norm"),
                      ("v_from_m_per_s", "v_from"), ("v_to_m_per_s", "v_to"), ("normfactor_from", "normfactor_from"),
                      ("normfactor_to", "normfactor_to")) if am > 1e-7 else ()):
        if name in reported and key in st_ and not math.isnan(reported[name]):
            # gas: the implementation replaces the mean pressure by the from pressure when both ends agree to
            # 1e-5 relative, which moves the mean velocity by up to ~1e-5
            rel = 2e-5 if (fl.is_gas and name == "v_mean_m_per_s") else 1e-9
            if not _close(reported[name], st_[key], rel, 1e-15 + (1e-15 * stats.get("colmax_" + name, 0.0) if tag == "pipe" else 0.0)):
                f.append(Finding("derived", "C02.derived.%s.%s" % (name, tag), dict(detail, reported=reported[name],
                                                                                   expected=st_[key], mdot=m)))
    return st_


def evaluate(case):
    import pandapipes as pp
    from pandapipes.component_models import Pipe
    rec, opts = case["recipe"], case["options"]
    net, r = solve_after_prelude(rec, opts, case.get("prelude"))
    if not r.ok:
        return Outcome(discard=r.status)
    fl = RefFluid.get(rec["fluid"])
    model = opts.get("friction_model", "nikuradse")
    thermal = opts["mode"] in ("sequential", "bidirectional", "heat")
    f = []
    stats = {"max_residual": 0.0}
    hj = net.junction.height_m
    pj = net.res_junction.p_bar
    feats_best = 0
    labels = {"gas" if fl.is_gas else "liquid", model, "mode:" + opts["mode"], "numba" if opts.get("use_numba", True) else "numpy",
              "history:" + str(case.get("prelude"))}
    nbr = 0
    pi_at = {}
    if "valve" in net and len(net.valve):
        for vi in net.valve.index:
            if net.valve.at[vi, "et"] == "pi":
                pi_at.setdefault(int(net.valve.at[vi, "element"]), set()).add(int(net.valve.at[vi, "junction"]))
    has_pipe = "pipe" in net and len(net.pipe) > 0
    contiguous = has_pipe and list(net.pipe.index) == list(range(len(net.pipe)))
    if has_pipe:
        for nm in net.res_pipe.columns:
            v = net.res_pipe[nm].abs()
            stats["colmax_" + nm] = float(v.max()) if v.notnull().any() else 0.0
    # ---- pipes
    for pidx in (net.pipe.index if has_pipe else []):
        row, res = net.pipe.loc[pidx], net.res_pipe.loc[pidx]
        m = res.mdot_from_kg_per_s
        if np.isnan(m) or not row.in_service:
            continue
        fj, tj = int(row.from_junction), int(row.to_junction)
        nsec = int(row.sections)
        d, k, zeta, L = row.inner_diameter_mm / 1e3, row.k_mm / 1e3, row.loss_coefficient, row.length_km * 1e3
        detail = {"pipe": int(pidx), "sections": nsec}
        # end pressures equal the junction pressures unless a junction-pipe valve sits on that end
        for jn, col in ((fj, "p_from_bar"), (tj, "p_to_bar")):
            if jn not in pi_at.get(int(pidx), set()) and not np.isnan(pj.at[jn]) and res[col] != pj.at[jn]:
                f.append(Finding("end_pressure", "C02.end_pressure.pipe", dict(detail, column=col, reported=res[col],
                                                                              junction_p=pj.at[jn])))
        rep = {c: float(res[c]) for c in res.index}
        nbr += 1
        feats = sum([abs(hj.at[fj] - hj.at[tj]) > 0, zeta > 0, m < 0, fl.is_gas, model != "nikuradse", nsec > 1])
        if abs(m) > 1e-6:
            feats_best = max(feats_best, feats)
        if m < 0:
            labels.add("reverse_flow")
        if nsec == 1:
            # in the thermal modes the upstream temperature is taken in flow direction
            t_up = res.t_to_k if (thermal and m < -2e-11) else res.t_from_k
            check_branch(f, "pipe", model, fl, m, {"pf": res.p_from_bar, "pt": res.p_to_bar, "t_from": t_up,
                                                   "t_out": res.t_outlet_k},
                         {"hf": hj.at[fj], "ht": hj.at[tj], "length": L, "d": d, "k": k, "zeta": zeta}, rep, stats, detail)
        elif contiguous and opts["mode"] == "hydraulics":
            labels.add("multi_section")
            try:
                ir = Pipe.get_internal_results(net, np.array([pidx]))
            except Exception as e:
                f.append(Finding("internal_results", "C02.internal_results.raises", dict(detail, exc=repr(e)[:200])))
                continue
            pint = list(ir["PINIT"][:, 1])
            tint = list(ir["TINIT"][:, 1])
            if len(pint) != nsec - 1:
                f.append(Finding("internal_results", "C02.internal_results.shape", dict(detail, n=len(pint))))
                continue
            ps = [res.p_from_bar] + pint + [res.p_to_bar]
            ts = [net.junction.tfluid_k.at[fj]] + tint + [net.junction.tfluid_k.at[tj]]
            hs = [hj.at[fj] + (hj.at[tj] - hj.at[fj]) * i / nsec for i in range(nsec + 1)]
            sts = []
            for i in range(nsec):
                # zeta is a property of the whole pipe; the implementation applies it per section - asserted by C09, here
                # the per-section law is evaluated with the value the section actually got (zeta per section)
                s = check_branch(f, "pipe_section", model, fl, m, {"pf": ps[i], "pt": ps[i + 1], "t_from": ts[i], "t_out": ts[i + 1]},
                                 {"hf": hs[i], "ht": hs[i + 1], "length": L / nsec, "d": d, "k": k,
                                  "zeta": zeta * case.get("zeta_factor", 1.0 / nsec)}, {}, stats, dict(detail, section=i))
                sts.append(s)
            if abs(m) > 1e-7:
                lag = 4e-9 / abs(m)
                for name, key in (("reynolds", "reynolds"), ("lambda", "lam"), ("v_mean_m_per_s", "v_mean")):
                    mean = sum(s[key] for s in sts) / nsec
                    if not _close(rep[name], mean, (2e-5 if (fl.is_gas and key == "v_mean") else 1e-7) + 2 * lag,
                                  1e-15 * stats.get("colmax_" + name, 0.0)):
                        f.append(Finding("derived", "C02.derived.%s.multi_section_mean" % name,
                                         dict(detail, reported=rep[name], expected=mean)))
    # ---- valves and heat exchangers
    for tbl in ("valve", "heat_exchanger"):
        if tbl not in net or not len(net[tbl]):
            continue
        for idx in net[tbl].index:
            row, res = net[tbl].loc[idx], net["res_" + tbl].loc[idx]
            m = res.mdot_from_kg_per_s
            if np.isnan(m):
                continue
            if tbl == "valve":
                fj = int(row.junction)
                tj = int(row.element) if row.et == "ju" else fj     # valve node has the junction's height
                tag = "valve_" + row.et
            else:
                fj, tj = int(row.from_junction), int(row.to_junction)
                tag = "heat_exchanger"
            zeta = row.loss_coefficient
            rep = {c: float(res[c]) for c in res.index}
            nbr += 1
            feats = sum([abs(hj.at[fj] - hj.at[tj]) > 0, zeta > 0, m < 0, fl.is_gas, model != "nikuradse"])
            if abs(m) > 1e-6:
                feats_best = max(feats_best, feats)
            if tbl == "heat_exchanger":
                labels.add("heat_exchanger")
            else:
                labels.add("valve_" + row.et)
            t_up = res.t_to_k if (thermal and m < -2e-11) else res.t_from_k
            check_branch(f, tag, model, fl, m, {"pf": res.p_from_bar, "pt": res.p_to_bar, "t_from": t_up,
                                                "t_out": res.t_outlet_k},
                         {"hf": hj.at[fj], "ht": hj.at[tj], "length": 0.0, "d": row.inner_diameter_mm / 1e3, "k": 1e-3,
                          "zeta": zeta}, {kk: v for kk, v in rep.items() if kk not in ("lambda",)}, stats,
                         {tbl: int(idx)})
    out = Outcome(findings=f, labels=labels, nontrivial=feats_best >= 2,
                  sample={"recipe": abbreviate(rec), "options": opts, "max_residual_bar": stats["max_residual"],
                          "branches_checked": nbr})
    out.max_residual = stats["max_residual"]
    out.nbr = nbr
    return out


def run_shard(coll, tier, seed, shard, nshards, known):
    def ev(case):
        out = evaluate(case)
        if not out.discard:
            coll.maximum("max_momentum_residual_bar", out.max_residual)
            coll.bump("branches_checked", out.nbr)
        return out
    run_given(case_strategy(tier), ev, EX[tier], derive_seed("C02", seed, shard), coll, known)


def replay(case):
    return evaluate(case)

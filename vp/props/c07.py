"""C07 - numba and numpy engines and the matrix-update option give the same answer.

(1) kernel-level differential of the twin functions on generated pit arrays that over-sample the
    special branches; (2) end-to-end numba vs numpy on generated nets, all modes; (3) histories on
    one net object with only_update_hydraulic_matrix / reuse_internal_data and changing loads
    against a fresh net solved without the option.
"""
from __future__ import annotations

import copy

import numpy as np
from hypothesis import strategies as st

from .. import gen, genheat
from ..recipe import abbreviate, build, solve
from ..runner import Finding, Outcome, derive_seed, run_given
from ..compare import compare_nets

RULE = ("kernel: generated branch/node arrays for the twin kernels (hydraulic incompressible / compressible, Nikuradse "
        "lambda, mean pressure, derived values, thermal, group sums); values over-sample mdot in {0, +-1e-12, +-1e-9, "
        "+-1e-8, +-1e-7, moderate, NaN}, equal end pressures, zero / 1e-9 length, switched direction; non-trivial = at "
        "least one special row. e2e: generated hydraulic and heating nets solved with use_numba True and False in all "
        "modes; non-trivial = gas, or thermal stage, or a branch with reverse flow. history: 2..6 load edits on one net "
        "object solved with only_update_hydraulic_matrix + reuse_internal_data, compared after every call with a fresh "
        "net solved without the options; non-trivial = >= 2 reuse steps with changed loads. Distinct = distinct case hash.")
ASSUMPTIONS = ["df_dm of the compressible kernel for |mdot| <= 1e-8 is excluded at kernel level (the numpy twin sets it to 1 on "
               "purpose; a Jacobian entry does not enter a converged result) and covered end-to-end",
               "transient kernels are out of scope (option not documented as available)"]
NSHARDS = {"quick": 16, "thorough": 16}
EX_K = {"quick": 500, "thorough": 12000}
EX_E = {"quick": 40, "thorough": 1500}
EX_H = {"quick": 12, "thorough": 400}

M_SPECIAL = [0.0, 1e-12, -1e-12, 1e-9, -1e-9, 1e-8, -1e-8, 1.0000001e-8, 1e-7, -1e-7, float("nan")]


def _eq(a, b, rtol=1e-12):
    a, b = np.asarray(a, dtype=float), np.asarray(b, dtype=float)
    if a.shape != b.shape:
        return False
    na, nb = np.isnan(a), np.isnan(b)
    if not np.array_equal(na, nb):
        return False
    ia, ib = np.isinf(a), np.isinf(b)
    if not np.array_equal(ia, ib) or not np.array_equal(a[ia], b[ib]):
        return False
    ok = ~(na | ia)
    return bool(np.all(np.abs(a[ok] - b[ok]) <= rtol * np.maximum(np.abs(a[ok]), np.abs(b[ok]))))


@st.composite
def kernel_case(draw):
    nb = draw(st.integers(1, 8))
    nn = draw(st.integers(2, 6))
    f = lambda lo, hi: st.floats(lo, hi, allow_nan=False, allow_infinity=False)
    rows = []
    for _ in range(nb):
        m = draw(st.one_of(st.sampled_from(M_SPECIAL), f(-3.0, 3.0), f(-1e-3, 1e-3)))
        rows.append({"m": m, "L": draw(st.sampled_from([0.0, 1e-9, 1e-11, 1.0, 250.0, 3000.0])),
                     "d": draw(st.sampled_from([0.025, 0.1, 0.5])), "k": draw(st.sampled_from([1e-6, 1e-4, 1.5e-3])),
                     "lc": draw(st.sampled_from([0.0, 0.0, 2.5])), "pl": draw(st.sampled_from([0.0, 0.0, 1.3])),
                     "lam": draw(f(0.008, 0.09)), "dlam": draw(f(-5.0, 0.0)),
                     "fn": draw(st.integers(0, nn - 1)), "tn": draw(st.integers(0, nn - 1)),
                     "tout": draw(f(275.0, 380.0)), "text": draw(f(260.0, 300.0)), "alpha": draw(st.sampled_from([0.0, 2.0, 15.0])),
                     "qext": draw(st.sampled_from([0.0, 0.0, 5000.0, -2000.0])), "tl": 0.0,
                     "sw": draw(st.booleans())})
    nodes = []
    pcommon = draw(f(0.5, 60.0))
    for _ in range(nn):
        nodes.append({"p": pcommon if draw(st.integers(0, 2)) == 0 else draw(f(0.05, 80.0)),
                      "t": draw(f(275.0, 380.0)), "h": draw(st.sampled_from([0.0, 0.0, 35.0, 250.0]))})
    return {"kind": "kernel", "rows": rows, "nodes": nodes, "rho": draw(f(0.5, 1000.0)), "eta": draw(f(8e-6, 1.5e-3)),
            "cp": draw(f(1000.0, 4300.0)), "amb": 293.15, "grp": draw(st.lists(st.integers(0, 12), min_size=1, max_size=12)),
            "grp_big": draw(st.booleans())}


def eval_kernel(case):
    from pandapipes import idx_branch as B, idx_node as N
    from pandapipes.pf import derivative_toolbox as tnp, derivative_toolbox_numba as tnb
    from pandapipes.pf import internals_toolbox as it
    from pandapipes.component_models.component_toolbox import p_correction_height_air
    rows, nodes = case["rows"], case["nodes"]
    nb, nn = len(rows), len(nodes)
    bp = np.zeros((nb, B.branch_cols))
    npit = np.zeros((nn, N.node_cols))
    for i, nd in enumerate(nodes):
        npit[i, N.PINIT], npit[i, N.TINIT], npit[i, N.HEIGHT] = nd["p"], nd["t"], nd["h"]
        npit[i, N.PAMB] = p_correction_height_air(nd["h"])
    for i, r in enumerate(rows):
        m = float(r["m"]) if not isinstance(r["m"], str) else float(r["m"])
        bp[i, B.MDOTINIT], bp[i, B.LENGTH], bp[i, B.D], bp[i, B.K] = m, r["L"], r["d"], r["k"]
        bp[i, B.DO] = r["d"]
        bp[i, B.AREA] = r["d"] ** 2 * np.pi / 4
        bp[i, B.LOSS_COEFFICIENT], bp[i, B.PL], bp[i, B.LAMBDA] = r["lc"], r["pl"], r["lam"]
        bp[i, B.FROM_NODE], bp[i, B.TO_NODE] = r["fn"], r["tn"]
        bp[i, B.TOUTINIT], bp[i, B.TEXT], bp[i, B.ALPHA], bp[i, B.QEXT], bp[i, B.TL] = r["tout"], r["text"], r["alpha"], r["qext"], r["tl"]
        bp[i, B.FROM_NODE_T_SWITCHED] = r["sw"]
    fn = bp[:, B.FROM_NODE].astype(np.int32)
    tn = bp[:, B.TO_NODE].astype(np.int32)
    f = []
    m_arr = bp[:, B.MDOTINIT].copy()
    small = np.abs(np.nan_to_num(m_arr, nan=1.0)) <= 1.0000001e-8

    nanrow = np.isnan(m_arr)

    def cmp(name, a, b, names, skip=None, flow_rows=True):
        for nm, x, y in zip(names, a, b):
            if flow_rows and np.shape(x) == nanrow.shape and nanrow.any() and nm not in ("load_vec", "fb", "fnt"):
                # a NaN mass flow makes the branch equation NaN in both engines (asserted through load_vec / fb /
                # fnt); intermediate values of such a row carry no meaning and are not compared
                x, y = np.asarray(x, dtype=float).copy(), np.asarray(y, dtype=float).copy()
                x[nanrow] = 0
                y[nanrow] = 0
            if skip and nm in skip:
                x, y = np.asarray(x, dtype=float).copy(), np.asarray(y, dtype=float).copy()
                x[skip[nm]] = 0
                y[skip[nm]] = 0
            if not _eq(x, y):
                f.append(Finding("kernel", "C07.kernel.%s.%s" % (name, nm), {"numpy": x, "numba": y, "mdot": m_arr}))
                return

    # derived values
    a = tnp.calc_derived_values_np(npit, fn, tn)
    b = tnb.calc_derived_values_numba(npit, fn, tn)
    cmp("derived_values", a, b, ["tinit_branch", "height_difference", "p_from_abs", "p_to_abs"], flow_rows=False)
    tinit, hdiff, pi, pi1 = a
    # mean pressure
    # the two derivative formulas are algebraically equal but evaluated in a different order; for nearly equal
    # end pressures the cancellation amplifies round-off without bound, so they are compared only for
    # |p_from - p_to| > 1e-4 p (with 1e-6) - p_m itself is evaluated identically and compared sharply
    near = np.abs(pi - pi1) <= 1e-4 * np.maximum(pi, pi1)
    pm_a = tnp.calc_medium_pressure_with_derivative_np(pi, pi1)
    pm_b = tnb.calc_medium_pressure_with_derivative_numba(pi, pi1)
    for nm, x, y in zip(["p_m"], pm_a[:1], pm_b[:1]):
        # p^3 - p1^3 cancels for nearly equal end pressures; numpy and numba power functions differ in the last bit
        x, y = x.copy(), y.copy()
        x[near & (pi != pi1)] = 0
        y[near & (pi != pi1)] = 0
        if not _eq(x, y, rtol=1e-10):
            f.append(Finding("kernel", "C07.kernel.medium_pressure.p_m", {"numpy": x, "numba": y, "p": pi, "p1": pi1}))
    for nm, x, y in zip(["der_p_m", "der_p_m1"], pm_a[1:], pm_b[1:]):
        x, y = x.copy(), y.copy()
        same = (pi == pi1)
        x[near & ~same] = 0
        y[near & ~same] = 0
        if not _eq(x, y, rtol=1e-6):
            f.append(Finding("kernel", "C07.kernel.medium_pressure." + nm, {"numpy": x, "numba": y, "p": pi, "p1": pi1}))
    eta = np.full(nb, case["eta"])
    d, k, area = bp[:, B.D].copy(), bp[:, B.K].copy(), bp[:, B.AREA].copy()
    names = ["re", "lambda_laminar", "lambda_nikuradse"]
    cmp("nikuradse_incomp", tnp.calc_lambda_nikuradse_incomp_np(m_arr, d, k, eta, area),
        tnb.calc_lambda_nikuradse_incomp_numba(m_arr, d, k, eta, area), names)
    cmp("nikuradse_comp", tnp.calc_lambda_nikuradse_comp_np(m_arr, d, k, eta, area),
        tnb.calc_lambda_nikuradse_comp_numba(m_arr, d, k, eta, area), names)
    rho = np.full(nb, case["rho"])
    dlam = np.array([r["dlam"] for r in rows])
    lam = bp[:, B.LAMBDA].copy()
    hn = ["load_vec", "load_vec_nodes_from", "load_vec_nodes_to", "df_dm", "df_dm_nodes", "df_dp", "df_dp1", "dp_frict_loss"]
    cmp("hyd_incomp", tnp.derivatives_hydraulic_incomp_np(bp.copy(), dlam, pi, pi1, hdiff, rho),
        tnb.derivatives_hydraulic_incomp_numba(bp.copy(), dlam, pi, pi1, hdiff, rho), hn)
    comp = 1.0 - 0.002 * (pi + pi1) / 2
    dc, dc1 = np.full(nb, -0.001), np.full(nb, 0.001)
    rho_n = np.full(nb, 0.8)
    cmp("hyd_comp", tnp.derivatives_hydraulic_comp_np(npit, bp.copy(), lam, dlam, pi, pi1, hdiff, comp, dc, dc1, rho, rho_n),
        tnb.derivatives_hydraulic_comp_numba(npit, bp.copy(), lam, dlam, pi, pi1, hdiff, comp, dc, dc1, rho, rho_n), hn)
    # thermal (steady state)
    fnc = it.get_from_nodes_corrected(bp)
    tnc = it.get_to_nodes_corrected(bp)
    t_i, t_i1, t_nt, t_n = npit[fnc, N.TINIT], bp[:, B.TOUTINIT].copy(), npit[tnc, N.TINIT], npit[:, N.TINIT].copy()
    cp_n, cp_b = np.full(nb, case["cp"]), np.full(nb, case["cp"] * 1.01)
    old_n = npit[:, [N.TINIT]].copy()
    old_b = bp[:, [B.TOUTINIT]].copy()
    nlu = -np.ones(N.TINIT + 1, dtype=np.int32); nlu[N.TINIT] = 0
    blu = -np.ones(B.TOUTINIT + 1, dtype=np.int32); blu[B.TOUTINIT] = 0
    args = (npit, bp, old_n, nlu, old_b, blu, fnc, tnc, t_i, t_i1, t_nt, t_n, cp_n, cp_b, rho, None, False, case["amb"])
    a = list(tnp.derivatives_thermal_np(*[x.copy() if isinstance(x, np.ndarray) else x for x in args]))
    b = list(tnb.derivatives_thermal_numba(*[x.copy() if isinstance(x, np.ndarray) else x for x in args]))
    inf_a = np.zeros(nn, dtype=bool); inf_a[np.asarray(a[-1], dtype=int)] = True
    inf_b = np.asarray(b[-1])
    if inf_b.dtype != bool:
        tmp = np.zeros(nn, dtype=bool); tmp[inf_b.astype(int)] = True; inf_b = tmp
    a[-1], b[-1] = inf_a.astype(float), inf_b.astype(float)
    cmp("thermal", a, b, ["fn", "dfn_dt", "fnt", "dfnt_dt", "dfnt_dtout", "fb", "dfb_dt", "dfb_dtout", "infeed"])
    # group sums
    idx = np.array(case["grp"], dtype=np.int64) + (200000 if case["grp_big"] else 0)
    v1 = np.arange(len(idx), dtype=float) * 0.37 - 1.0
    v2 = np.ones(len(idx), dtype=np.int32)
    a = it._sum_by_group_np(idx.copy(), v1.copy(), v2.copy())
    b = it._sum_by_group_numba(idx.copy(), v1.copy(), v2.copy())
    cmp("sum_by_group", a, b, ["indices", "sum1", "sum2"], flow_rows=False)
    spec = sum(1 for r in rows if (isinstance(r["m"], str) or r["m"] in M_SPECIAL or r["L"] in (0.0, 1e-9, 1e-11)
                                   or nodes[r["fn"]]["p"] == nodes[r["tn"]]["p"] or r["sw"]))
    labels = {"kernel"} | ({"nan_mdot"} if any(isinstance(r["m"], str) or r["m"] != r["m"] for r in rows) else set())
    if any(nodes[r["fn"]]["p"] == nodes[r["tn"]]["p"] for r in rows):
        labels.add("equal_end_pressures")
    if any(r["L"] == 0.0 for r in rows):
        labels.add("zero_length")
    return Outcome(findings=f, labels=labels, nontrivial=spec > 0, sample=case)


# =================================================================================================
@st.composite
def e2e_case(draw, tier):
    if draw(st.integers(0, 2)) == 0:
        rec = draw(genheat.heat_net(max_n=4 if tier == "quick" else 8, allow_oos=True))
        opts = draw(genheat.heat_options())
        if draw(st.integers(0, 3)) == 0:
            opts["mode"] = "hydraulics"
    else:
        rec, opts = draw(gen.hyd_case(max_n=8 if tier == "quick" else 25, tight=True))
        opts["mode"] = "hydraulics"
    opts.pop("use_numba", None)
    return {"kind": "e2e", "recipe": rec, "options": opts}


def eval_e2e(case):
    rec, opts = case["recipe"], case["options"]
    nets, sts = [], []
    for nbflag in (True, False):
        net = build(rec)
        r = solve(net, use_numba=nbflag, **opts)
        nets.append(net)
        sts.append(r)
    f = []
    if sts[0].status != sts[1].status and opts.get("friction_model", "nikuradse") != "nikuradse" and \
            "crash" not in (sts[0].status, sts[1].status):
        # Colebrook-White / Swamee-Jain are undefined for laminar flow; whether an iterate enters that region depends
        # on round-off (see gen.hyd_case)
        return Outcome(discard="verdict_mismatch_turbulent_friction_model")
    if sts[0].status != sts[1].status and "rejected" in (sts[0].status, sts[1].status):
        # one engine ended in the mirror root with negative absolute pressures (recipe.solve): on such over-loaded nets the
        # iteration is erratic, which root is reached is no statement about the engines
        return Outcome(discard="one_engine_in_negative_pressure_root")
    if sts[0].status != sts[1].status:
        sig = "C07.e2e.verdict"
        okn = nets[0] if sts[0].ok else (nets[1] if sts[1].ok else None)
        if okn is not None:
            # a dead-end region on the inlet side of a pressure controller has no equation that fixes its pressure level (the
            # controller supplies whatever lift is needed): the system is singular, one engine stops at an arbitrary level
            # (seen: 626 bar in a 0.04 bar net), the other does not stop. No statement about the engines.
            fixed = [abs(e.get("p_bar") or 0.0) for e in rec["elements"] if e["table"] == "ext_grid"] + \
                    [abs(e.get("controlled_p_bar") or 0.0) for e in rec["elements"] if e["table"] == "press_control"] + \
                    [abs(e.get("p_flow_bar") or 0.0) for e in rec["elements"] if e["table"].startswith("circ_pump")] + [1.0]
            pj = okn.res_junction.p_bar.values.astype(float)
            if len(pj) and np.nanmax(np.abs(np.where(np.isnan(pj), 0.0, pj))) > 50.0 * max(fixed):
                return Outcome(discard="undetermined_pressure_level_behind_pressure_controller")
        if okn is not None:
            for t in ("pump", "compressor"):
                # zero OR reverse flow (same criterion as for differing results below): the lift is discontinuous there
                if t in okn and len(okn[t]) and (okn["res_" + t].mdot_from_kg_per_s.fillna(1.0) <= 1e-9).any():
                    sig = "C07.e2e.verdict.zero_flow_pump"
        f.append(Finding("verdict", sig, {"numba": sts[0].status, "numpy": sts[1].status,
                                                        "exc": [repr(s.exc)[:150] for s in sts]}))
        return Outcome(findings=f, labels={"e2e", "verdict_mismatch"}, nontrivial=True,
                       sample={"recipe": abbreviate(rec), "options": opts})
    if not sts[0].ok:
        return Outcome(discard=sts[0].status)
    diffs = compare_nets(nets[0], nets[1])
    lift0 = False
    for n_ in nets:
        for t in ("pump", "compressor"):
            if t in n_ and len(n_[t]) and (n_["res_" + t].mdot_from_kg_per_s.fillna(1.0) <= 1e-9).any():
                lift0 = True
    for d in diffs[:3]:
        # zero / reverse flow through a pump or compressor: discontinuous lift, the two engines can end in
        # different solutions (same known finding as the verdict variant)
        sig = "C07.e2e.verdict.zero_flow_pump" if lift0 else "C07.e2e.results.%s.%s" % (d["table"], d["column"])
        f.append(Finding("results", sig, d))
    gas = nets[0].fluid.is_gas
    rev = any((nets[0]["res_" + t].mdot_from_kg_per_s < -1e-9).any() for t in ("pipe", "valve", "heat_exchanger")
              if t in nets[0] and len(nets[0][t]))
    labels = {"e2e", "mode:" + opts["mode"], "gas" if gas else "liquid"} | ({"reverse_flow"} if rev else set())
    return Outcome(findings=f, labels=labels, nontrivial=gas or opts["mode"] != "hydraulics" or rev,
                   sample={"recipe": abbreviate(rec), "options": opts})


# =================================================================================================
@st.composite
def history_case(draw):
    if draw(st.integers(0, 3)) == 0:
        rec = draw(genheat.heat_net(max_n=3, feeders=["eg", "cpp"]))
        opts = draw(genheat.heat_options(tight=False, modes=("sequential", "sequential", "bidirectional")))
        if draw(st.booleans()):
            opts["mode"] = "hydraulics"
    else:
        rec, opts = draw(gen.hyd_case(max_n=7, tight=False, allow_oos=draw(st.booleans())))
        opts["mode"] = "hydraulics"
    # loads, and parameters whose change leaves the structure of the system matrix as it is (fluid temperature, a fixed
    # pressure, a pipe length)
    # "switch" changes the topology (a valve / a pipe is switched): that call asks for fresh internal data
    # (reuse_internal_data=False, still only_update_hydraulic_matrix=True), the following ones reuse again
    steps = draw(st.lists(st.tuples(st.sampled_from(["scale_value", "scale_value", "scaling", "toggle", "same", "temperature",
                                                     "pressure", "length", "switch", "setpoint"]),
                                    st.integers(0, 30), st.sampled_from([0.0, 0.3, 0.5, 0.9, 1.1, 1.5, 2.0])),
                          min_size=2, max_size=6))
    return {"kind": "history", "recipe": rec, "options": opts, "steps": [list(s) for s in steps]}


LOAD_TABLES = ("sink", "source", "mass_storage")


def eval_history(case):
    rec = copy.deepcopy(case["recipe"])
    opts = dict(case["options"])
    net = build(rec)
    f = []
    loads = [e for e in rec["elements"] if e["table"] in LOAD_TABLES]
    changed_steps = 0
    statuses = []
    for step, k, fac in [("same", 0, 1.0)] + [tuple(s) for s in case["steps"]]:
        reuse = True
        if step == "switch":
            sw = [e for e in rec["elements"] if (e["table"] == "valve" and e["et"] == "ju") or e["table"] == "pipe"]
            if sw:
                e = sw[k % len(sw)]
                col = "opened" if e["table"] == "valve" else "in_service"
                e[col] = not e.get(col, True)
                net[e["table"]].at[e["index"], col] = e[col]
                changed_steps += 1
                reuse = False
        elif step == "setpoint":
            # set-points of controlling components (structure unchanged; control_active is NOT toggled: an active flow controller
            # has an equation of its own, so toggling it changes the system - seen as "matrix - rhs dimension mismatch" when done
            # under reuse_internal_data, which is the caller's responsibility)
            sp = [(e, c_) for e in rec["elements"] for c_ in {"compressor": ["pressure_ratio"], "flow_control": ["controlled_mdot_kg_per_s"],
                                                               "press_control": ["controlled_p_bar"], "pump": ["std_type"],
                                                               "circ_pump_pressure": ["plift_bar"], "heat_exchanger": ["qext_w"]}.get(e["table"], [])]
            if sp:
                e, c_ = sp[k % len(sp)]
                if c_ == "control_active":
                    e[c_] = not e.get(c_, True)
                elif c_ == "std_type":
                    e[c_] = {"P1": "P2", "P2": "P3", "P3": "P1"}.get(e[c_], e[c_])
                elif c_ == "pressure_ratio":
                    e[c_] = 1.0 + (e[c_] - 1.0) * max(fac, 0.3)
                else:
                    e[c_] = e[c_] * (0.8 + 0.2 * fac)
                net[e["table"]].at[e["index"], c_] = e[c_]
                changed_steps += 1
        elif step == "temperature":
            dt = (fac - 1.0) * 25.0
            for j in rec["junction"]:
                j["tfluid_k"] = j["tfluid_k"] + dt
                net.junction.at[j["index"], "tfluid_k"] = j["tfluid_k"]
            for e in rec["elements"]:
                if e["table"] == "ext_grid" and e.get("t_k") is not None:
                    e["t_k"] = e["t_k"] + dt
                    net.ext_grid.at[e["index"], "t_k"] = e["t_k"]
            changed_steps += 1
        elif step == "pressure":
            egs = [e for e in rec["elements"] if e["table"] == "ext_grid" and e.get("p_bar") is not None]
            if egs:
                e = egs[k % len(egs)]
                e["p_bar"] = e["p_bar"] * (1.0 + 0.05 * (fac - 1.0))
                net.ext_grid.at[e["index"], "p_bar"] = e["p_bar"]
                changed_steps += 1
        elif step == "length":
            pipes = [e for e in rec["elements"] if e["table"] == "pipe"]
            if pipes and fac > 0:
                e = pipes[k % len(pipes)]
                e["length_km"] = e["length_km"] * fac
                net.pipe.at[e["index"], "length_km"] = e["length_km"]
                changed_steps += 1
        elif loads and step != "same":
            e = loads[k % len(loads)]
            if step == "scale_value":
                e["mdot_kg_per_s"] = e["mdot_kg_per_s"] * fac
                net[e["table"]].at[e["index"], "mdot_kg_per_s"] = e["mdot_kg_per_s"]
            elif step == "scaling":
                e["scaling"] = fac
                net[e["table"]].at[e["index"], "scaling"] = fac
            elif step == "toggle":
                e["in_service"] = not e.get("in_service", True)
                net[e["table"]].at[e["index"], "in_service"] = e["in_service"]
            changed_steps += 1
        r1 = solve(net, only_update_hydraulic_matrix=True, reuse_internal_data=reuse, **opts)
        fresh = build(rec)
        r2 = solve(fresh, **opts)
        statuses.append(r1.status)
        if r1.status != r2.status:
            f.append(Finding("history", "C07.history.verdict", {"reuse": r1.status, "fresh": r2.status, "step": step,
                                                                "exc": repr(r1.exc)[:200]}))
            break
        if r1.ok:
            diffs = compare_nets(net, fresh, exact=True)
            if diffs:
                f.append(Finding("history", "C07.history.results.%s" % diffs[0]["table"], dict(diffs[0], step=step,
                                                                                              n_prev=len(statuses) - 1)))
                break
    labels = {"history", "mode:" + opts["mode"]} | {"status:" + s for s in statuses} | {"edit:" + s_[0] for s_ in case["steps"]}
    return Outcome(findings=f, labels=labels, nontrivial=changed_steps >= 2 and statuses.count("ok") >= 2,
                   sample={"recipe": abbreviate(case["recipe"]), "options": opts, "steps": case["steps"]})


def evaluate(case):
    return {"kernel": eval_kernel, "e2e": eval_e2e, "history": eval_history}[case["kind"]](case)


def run_shard(coll, tier, seed, shard, nshards, known):
    if shard % 8 == 0:
        run_given(kernel_case(), evaluate, EX_K[tier], derive_seed("C07k", seed, shard), coll, known)
    elif shard % 4 == 1:
        run_given(history_case(), evaluate, EX_H[tier], derive_seed("C07h", seed, shard), coll, known, shrink_s=30)
    else:
        run_given(e2e_case(tier), evaluate, EX_E[tier], derive_seed("C07e", seed, shard), coll, known, shrink_s=30)


def replay(case):
    return evaluate(case)

"""Network recipes: plain JSON-able descriptions of a pandapipes net, and `build(recipe)` that
creates the net through the public single-element create_* API only.

recipe = {
  "fluid": "water" | "lgas" | ... | {"const": {"name":..., "fluid_type": "gas"|"liquid", props...}},
  "sector": "all" | "gas" | "water" | "heat" | "None",
  "junction": [ {"index": int, "pn_bar":, "tfluid_k":, "height_m":, "in_service": bool}, ... ],
  "elements": [ {"table": <table>, "index": int, <create-function keyword arguments>}, ... ],   # creation order
  "row_order": {table: [index, ...]}        # optional final row permutation per table
}
"""
from __future__ import annotations

import copy
import math

import numpy as np

TABLE_CREATE = {
    "pipe": "create_pipe_from_parameters",
    "valve": "create_valve",
    "pump": "create_pump",
    "compressor": "create_compressor",
    "press_control": "create_pressure_control",
    "flow_control": "create_flow_control",
    "heat_exchanger": "create_heat_exchanger",
    "heat_consumer": "create_heat_consumer",
    "circ_pump_pressure": "create_circ_pump_const_pressure",
    "circ_pump_mass": "create_circ_pump_const_mass_flow",
    "ext_grid": "create_ext_grid",
    "sink": "create_sink",
    "source": "create_source",
    "mass_storage": "create_mass_storage",
}
BRANCH_TABLES = ["pipe", "valve", "pump", "compressor", "press_control", "flow_control", "heat_exchanger",
                 "heat_consumer", "circ_pump_pressure", "circ_pump_mass"]
NODE_ELEMENT_TABLES = ["ext_grid", "sink", "source", "mass_storage"]
FROM_TO = {
    "pipe": ("from_junction", "to_junction"), "valve": ("junction", "element"),
    "pump": ("from_junction", "to_junction"), "compressor": ("from_junction", "to_junction"),
    "press_control": ("from_junction", "to_junction"), "flow_control": ("from_junction", "to_junction"),
    "heat_exchanger": ("from_junction", "to_junction"), "heat_consumer": ("from_junction", "to_junction"),
    "circ_pump_pressure": ("return_junction", "flow_junction"),
    "circ_pump_mass": ("return_junction", "flow_junction"),
}
ACTIVE_COL = {t: "in_service" for t in BRANCH_TABLES + NODE_ELEMENT_TABLES}
ACTIVE_COL["valve"] = "opened"


def _denan(v):
    if isinstance(v, str) and v in ("nan", "inf", "-inf"):
        return float(v)
    return v


def make_fluid(spec):
    import pandapipes as pp
    if isinstance(spec, str):
        return spec
    c = dict(spec["const"])
    name = c.pop("name", "constfluid")
    ftype = c.pop("fluid_type", "liquid")
    return pp.create_constant_fluid(name=name, fluid_type=ftype, **c)


def build(recipe):
    import pandapipes as pp
    from pandapipes.pandapipes_net import Sector
    sector = Sector(recipe.get("sector", "all"))
    net = pp.create_empty_network(fluid=make_fluid(recipe["fluid"]), sector=sector)
    for j in recipe["junction"]:
        kw = {k: _denan(v) for k, v in j.items()}
        pp.create_junction(net, **kw)
    for e in recipe["elements"]:
        kw = {k: _denan(v) for k, v in e.items() if k != "table"}
        getattr(pp, TABLE_CREATE[e["table"]])(net, **kw)
    for tbl, order in (recipe.get("row_order") or {}).items():
        if tbl in net and len(net[tbl]):
            listed = [i for i in order if i in net[tbl].index]
            rest = [i for i in net[tbl].index if i not in set(listed)]
            net[tbl] = net[tbl].loc[listed + rest]
    return net


def junction_ids(recipe):
    return [j["index"] for j in recipe["junction"]]


def elements_of(recipe, table):
    return [e for e in recipe["elements"] if e["table"] == table]


def is_gas(recipe):
    f = recipe["fluid"]
    if isinstance(f, str):
        return f != "water"
    return f["const"].get("fluid_type", "liquid") == "gas"


def _r(v, n):
    return round(v, n) if isinstance(v, (int, float)) and math.isfinite(v) else v


def abbreviate(recipe):
    """Short, readable form for evidence samples."""
    out = {"fluid": recipe["fluid"] if isinstance(recipe["fluid"], str) else "const",
           "sector": recipe.get("sector", "all"),
           "junctions": [[j["index"], _r(j["pn_bar"], 3), _r(j["tfluid_k"], 1), _r(j.get("height_m", 0), 1),
                          j.get("in_service", True)] for j in recipe["junction"]],
           "elements": []}
    for e in recipe["elements"]:
        ft = FROM_TO.get(e["table"])
        d = {"t": e["table"], "i": e["index"]}
        if ft:
            d["ft"] = [e[ft[0]], e[ft[1]]]
        else:
            d["j"] = e["junction"]
        for k, v in e.items():
            if k in ("table", "index", "junction") or (ft and k in ft):
                continue
            d[k] = round(v, 5) if isinstance(v, float) and math.isfinite(v) else v
        out["elements"].append(d)
    if recipe.get("row_order"):
        out["row_order"] = recipe["row_order"]
    if recipe.get("options"):
        out["options"] = recipe["options"]
    return out


# ------------------------------------------------------------------------------------------------
# solving
# ------------------------------------------------------------------------------------------------
TIGHT_HYD = dict(tol_p=1e-10, tol_m=1e-10, tol_res=1e-8, iter=200, tolerance_colebrook=1e-13,
                 max_iter_colebrook=100)
TIGHT_HEAT = dict(tol_p=1e-10, tol_m=1e-10, tol_T=1e-8, tol_res=1e-6, iter=200, tolerance_colebrook=1e-13,
                  max_iter_colebrook=100)


class SolveResult:
    def __init__(self, status, exc=None, returned=False):
        self.status = status   # "ok" | "not_converged" | "rejected" | "crash"
        self.exc = exc
        self.returned = returned or status == "ok"    # pipeflow returned normally (also for a state classified "rejected")

    @property
    def ok(self):
        return self.status == "ok"


def solve(net, **opts):
    """pipeflow with classification of the outcome. `rejected` = documented UserWarning refusals."""
    import pandapipes as pp
    from pandapipes.pf.pipeflow_setup import PipeflowNotConverged
    try:
        pp.pipeflow(net, **opts)
        # pandapipes itself declares a converged state "physically incorrect" when the (gauge) pressure of a junction is
        # negative (UserWarning in Junction.extract_results; Newton can even end in the mirror root of the gas equations
        # with negative ABSOLUTE pressures, seen down to -35 bar on over-loaded nets). The same happens unnoticed at the
        # internal nodes of multi-section pipes (seen: -2.03 bar inside a pipe whose ends are at -0.19 / 0.46 bar, which
        # makes its reported dp_friction_loss_bar 4.33 instead of 0.65 bar). Such a state is classified like the documented
        # rejection and never compared; the criterion is the library's own, extended to the internal nodes.
        try:
            from pandapipes.idx_node import PINIT
            pj = net.res_junction.p_bar.values.astype(float)
            pn = net["_pit"]["node"][:, PINIT] if "_pit" in net else np.zeros(0)
            act = net["_lookups"]["node_active_hydraulics"] if "node_active_hydraulics" in net.get("_lookups", {}) else None
            if act is not None and len(act) == len(pn):
                pn = pn[act]
            if (len(pj) and np.nanmin(np.where(np.isnan(pj), 0.0, pj)) < 0) or (len(pn) and np.nanmin(np.where(np.isnan(pn), 0.0, pn)) < 0):
                return SolveResult("rejected", UserWarning("negative pressure in the returned state"), returned=True)
        except (AttributeError, KeyError, ValueError, TypeError):
            pass
        return SolveResult("ok")
    except PipeflowNotConverged as e:
        return SolveResult("not_converged", e)
    except UserWarning as e:
        return SolveResult("rejected", e)
    except Exception as e:  # anything else escaping from pipeflow
        return SolveResult("crash", e)


def reload_net(net, how):
    """What users do to a net object between two calculations without changing what it describes: save and load it,
    copy it, post-process a result table. Returns the net to go on with (same physical description).
    how: "pickle" | "json" | "deepcopy" | "touch" (re-assign one column of every result table, which leaves the
    table's values untouched but changes how pandas stores it)."""
    import copy
    import os
    import tempfile
    import pandapipes as pp
    if how == "deepcopy":
        return copy.deepcopy(net)
    if how == "pickle":
        with tempfile.TemporaryDirectory(prefix="vp_reload_") as d:
            fn = os.path.join(d, "net.p")
            pp.to_pickle(net, fn)
            return pp.from_pickle(fn)
    if how == "json":
        return pp.from_json_string(pp.to_json(net))
    if how == "touch":
        for t in res_tables(net):
            df = net[t]
            if len(df.columns):
                c = df.columns[0]
                df[c] = df[c].values.copy()
        return net
    raise ValueError(how)


RELOADS = ["pickle", "json", "deepcopy", "touch"]


PRELUDES = ["reuse_temperature", "reuse_setpoints", "reuse_loads", "failed_run", "touched_results", "transient_steps"]


def solve_after_prelude(rec, opts, prelude):
    """Build the net of `rec` and calculate it with `opts` - but on a net object that has a history, the way nets are used
    in time series and controller loops. The result must obey the same laws as a calculation on a fresh net. Returns
    (net, SolveResult of the final calculation).

    prelude: None | "reuse_temperature" | "reuse_setpoints" | "reuse_loads": an earlier calculation of the same net with other
    values (fluid temperature / set-points of compressors, controllers, pumps / loads) using only_update_hydraulic_matrix +
    reuse_internal_data, then the values of `rec` are put back and the final calculation reuses the internal data (the
    structure of the net never changes); "failed_run": an earlier calculation that fails (iteration limit 1, zero tolerance);
    "touched_results": an earlier successful calculation whose result tables were post-processed by the user (one column
    re-assigned), so that pandas stores them differently."""
    net = build(rec)
    if not prelude:
        return net, solve(net, **opts)
    if prelude.startswith("reuse_"):
        keep = {t: net[t].copy(deep=True) for t in net.keys() if hasattr(net[t], "columns") and not t.startswith(("res_", "_"))}
        what = prelude[6:]
        if what == "temperature":
            net.junction["tfluid_k"] = net.junction["tfluid_k"] + 17.0
            if "ext_grid" in net and len(net.ext_grid):
                net.ext_grid["t_k"] = net.ext_grid["t_k"] + 17.0
        elif what == "loads":
            for t in ("sink", "source", "mass_storage"):
                if t in net and len(net[t]):
                    net[t]["mdot_kg_per_s"] = net[t]["mdot_kg_per_s"] * 0.6
            if "heat_consumer" in net and len(net.heat_consumer):
                net.heat_consumer["controlled_mdot_kg_per_s"] = net.heat_consumer["controlled_mdot_kg_per_s"] * 0.8
        else:
            if "compressor" in net and len(net.compressor):
                net.compressor["pressure_ratio"] = 1.0 + (net.compressor["pressure_ratio"] - 1.0) * 0.5
            if "flow_control" in net and len(net.flow_control):
                net.flow_control["controlled_mdot_kg_per_s"] = net.flow_control["controlled_mdot_kg_per_s"] * 0.5
            if "press_control" in net and len(net.press_control):
                net.press_control["controlled_p_bar"] = net.press_control["controlled_p_bar"] * 0.9
            if "pump" in net and len(net.pump):
                net.pump["std_type"] = [{"P1": "P2", "P2": "P3", "P3": "P1"}.get(x, x) for x in net.pump["std_type"]]
            if "circ_pump_pressure" in net and len(net.circ_pump_pressure):
                net.circ_pump_pressure["plift_bar"] = net.circ_pump_pressure["plift_bar"] * 0.7
            if "heat_exchanger" in net and len(net.heat_exchanger):
                net.heat_exchanger["qext_w"] = net.heat_exchanger["qext_w"] * 0.5
        ro = dict(opts, only_update_hydraulic_matrix=True, reuse_internal_data=True)
        solve(net, **ro)                       # whatever its outcome
        for t, df in keep.items():
            net[t] = df
        return net, solve(net, **ro)
    if prelude == "transient_steps":
        # the transient (thermal storage) mode keeps the internal tables of the previous time step: steps 0, 1, 2 on one net
        # object; hydraulics are quasi-steady in every step, so the result of the last step obeys the same laws
        r = None
        for k in range(3):
            r = solve(net, **dict(opts, transient=True, dt=60.0, simulation_time_step=k))
            if not r.ok:
                break
        return net, r
    if prelude == "failed_run":
        solve(net, **dict({k: v for k, v in opts.items() if k != "iter"}, max_iter_hyd=1, max_iter_therm=1, max_iter_bidirect=1,
                          tol_m=0.0))
        return net, solve(net, **opts)
    if prelude == "touched_results":
        solve(net, **opts)
        reload_net(net, "touch")
        return net, solve(net, **opts)
    raise ValueError(prelude)


def exc_sig(e):
    """type + innermost pandapipes frame of an exception (for bucketing crashes by root cause)."""
    import traceback
    tb = traceback.extract_tb(e.__traceback__)
    fr = None
    for f in tb:
        if "/pandapipes/" in f.filename:
            fr = f
    where = "%s:%s" % (fr.filename.split("/pandapipes/")[-1], fr.name) if fr else "?"
    return "%s@%s" % (type(e).__name__, where)


def res_tables(net):
    return sorted(k for k in net.keys() if k.startswith("res_") and hasattr(net[k], "columns"))


def deep(recipe):
    return copy.deepcopy(recipe)

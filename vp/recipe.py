"""Network recipes: plain JSON-able descriptions of a pandapipes net, and `build(recipe)` that
creates the net through the public single-element create_* API only.

recipe = {
  "fluid": "water" | "lgas" | ... | {"const": {"name":..., "fluid_type": "gas"|"liquid", props...}},
  "sector": "all" | "gas" | "water" | "heat" | "None",
  "junction": [ {"index": int, "pn_bar":, "tfluid_k":, "height_m":, "in_service": bool}, ... ],
  "elements": [ {"table": <table>, "index": int, <create-function keyword arguments>}, ... ],   # creation order
  "row_order": {table: [index, ...]}        # optional final row permutation per table
}
"""
from __future__ import annotations

import copy
import math

import numpy as np

TABLE_CREATE = {
    "pipe": "create_pipe_from_parameters",
    "valve": "create_valve",
    "pump": "create_pump",
    "compressor": "create_compressor",
    "press_control": "create_pressure_control",
    "flow_control": "create_flow_control",
    "heat_exchanger": "create_heat_exchanger",
    "heat_consumer": "create_heat_consumer",
    "circ_pump_pressure": "create_circ_pump_const_pressure",
    "circ_pump_mass": "create_circ_pump_const_mass_flow",
    "ext_grid": "create_ext_grid",
    "sink": "create_sink",
    "source": "create_source",
    "mass_storage": "create_mass_storage",
}
BRANCH_TABLES = ["pipe", "valve", "pump", "compressor", "press_control", "flow_control", "heat_exchanger",
                 "heat_consumer", "circ_pump_pressure", "circ_pump_mass"]
NODE_ELEMENT_TABLES = ["ext_grid", "sink", "source", "mass_storage"]
FROM_TO = {
    "pipe": ("from_junction", "to_junction"), "valve": ("junction", "element"),
    "pump": ("from_junction", "to_junction"), "compressor": ("from_junction", "to_junction"),
    "press_control": ("from_junction", "to_junction"), "flow_control": ("from_junction", "to_junction"),
    "heat_exchanger": ("from_junction", "to_junction"), "heat_consumer": ("from_junction", "to_junction"),
    "circ_pump_pressure": ("return_junction", "flow_junction"),
    "circ_pump_mass": ("return_junction", "flow_junction"),
}
ACTIVE_COL = {t: "in_service" for t in BRANCH_TABLES + NODE_ELEMENT_TABLES}
ACTIVE_COL["valve"] = "opened"


def _denan(v):
    if isinstance(v, str) and v in ("nan", "inf", "-inf"):
        return float(v)
    return v


def make_fluid(spec):
    import pandapipes as pp
    if isinstance(spec, str):
        return spec
    c = dict(spec["const"])
    name = c.pop("name", "constfluid")
    ftype = c.pop("fluid_type", "liquid")
    return pp.create_constant_fluid(name=name, fluid_type=ftype, **c)


def build(recipe):
    import pandapipes as pp
    from pandapipes.pandapipes_net import Sector
    sector = Sector(recipe.get("sector", "all"))
    net = pp.create_empty_network(fluid=make_fluid(recipe["fluid"]), sector=sector)
    for j in recipe["junction"]:
        kw = {k: _denan(v) for k, v in j.items()}
        pp.create_junction(net, **kw)
    for e in recipe["elements"]:
        kw = {k: _denan(v) for k, v in e.items() if k != "table"}
        getattr(pp, TABLE_CREATE[e["table"]])(net, **kw)
    for tbl, order in (recipe.get("row_order") or {}).items():
        if tbl in net and len(net[tbl]):
            listed = [i for i in order if i in net[tbl].index]
            rest = [i for i in net[tbl].index if i not in set(listed)]
            net[tbl] = net[tbl].loc[listed + rest]
    return net


def junction_ids(recipe):
    return [j["index"] for j in recipe["junction"]]


def elements_of(recipe, table):
    return [e for e in recipe["elements"] if e["table"] == table]


def is_gas(recipe):
    f = recipe["fluid"]
    if isinstance(f, str):
        return f != "water"
    return f["const"].get("fluid_type", "liquid") == "gas"


def _r(v, n):
    return round(v, n) if isinstance(v, (int, float)) and math.isfinite(v) else v


def abbreviate(recipe):
    """Short, readable form for evidence samples."""
    out = {"fluid": recipe["fluid"] if isinstance(recipe["fluid"], str) else "const",
           "sector": recipe.get("sector", "all"),
           "junctions": [[j["index"], _r(j["pn_bar"], 3), _r(j["tfluid_k"], 1), _r(j.get("height_m", 0), 1),
                          j.get("in_service", True)] for j in recipe["junction"]],
           "elements": []}
    for e in recipe["elements"]:
        ft = FROM_TO.get(e["table"])
        d = {"t": e["table"], "i": e["index"]}
        if ft:
            d["ft"] = [e[ft[0]], e[ft[1]]]
        else:
            d["j"] = e["junction"]
        for k, v in e.items():
            if k in ("table", "index", "junction") or (ft and k in ft):
                continue
            d[k] = round(v, 5) if isinstance(v, float) and math.isfinite(v) else v
        out["elements"].append(d)
    if recipe.get("row_order"):
        out["row_order"] = recipe["row_order"]
    if recipe.get("options"):
        out["options"] = recipe["options"]
    return out


# ------------------------------------------------------------------------------------------------
# solving
# ------------------------------------------------------------------------------------------------
TIGHT_HYD = dict(tol_p=1e-10, tol_m=1e-10, tol_res=1e-8, iter=200, tolerance_colebrook=1e-13,
                 max_iter_colebrook=100)
TIGHT_HEAT = dict(tol_p=1e-10, tol_m=1e-10, tol_T=1e-8, tol_res=1e-6, iter=200, tolerance_colebrook=1e-13,
                  max_iter_colebrook=100)


class SolveResult:
    def __init__(self, status, exc=None):
        self.status = status   # "ok" | "not_converged" | "rejected" | "crash"
        self.exc = exc

    @property
    def ok(self):
        return self.status == "ok"


def solve(net, **opts):
    """pipeflow with classification of the outcome. `rejected` = documented UserWarning refusals."""
    import pandapipes as pp
    from pandapipes.pf.pipeflow_setup import PipeflowNotConverged
    try:
        pp.pipeflow(net, **opts)
        return SolveResult("ok")
    except PipeflowNotConverged as e:
        return SolveResult("not_converged", e)
    except UserWarning as e:
        return SolveResult("rejected", e)
    except Exception as e:  # anything else escaping from pipeflow
        return SolveResult("crash", e)


def reload_net(net, how):
    """What users do to a net object between two calculations without changing what it describes: save and load it,
    copy it, post-process a result table. Returns the net to go on with (same physical description).
    how: "pickle" | "json" | "deepcopy" | "touch" (re-assign one column of every result table, which leaves the
    table's values untouched but changes how pandas stores it)."""
    import copy
    import os
    import tempfile
    import pandapipes as pp
    if how == "deepcopy":
        return copy.deepcopy(net)
    if how == "pickle":
        with tempfile.TemporaryDirectory(prefix="vp_reload_") as d:
            fn = os.path.join(d, "net.p")
            pp.to_pickle(net, fn)
            return pp.from_pickle(fn)
    if how == "json":
        return pp.from_json_string(pp.to_json(net))
    if how == "touch":
        for t in res_tables(net):
            df = net[t]
            if len(df.columns):
                c = df.columns[0]
                df[c] = df[c].values.copy()
        return net
    raise ValueError(how)


RELOADS = ["pickle", "json", "deepcopy", "touch"]


def exc_sig(e):
    """type + innermost pandapipes frame of an exception (for bucketing crashes by root cause)."""
    import traceback
    tb = traceback.extract_tb(e.__traceback__)
    fr = None
    for f in tb:
        if "/pandapipes/" in f.filename:
            fr = f
    where = "%s:%s" % (fr.filename.split("/pandapipes/")[-1], fr.name) if fr else "?"
    return "%s@%s" % (type(e).__name__, where)


def res_tables(net):
    return sorted(k for k in net.keys() if k.startswith("res_") and hasattr(net[k], "columns"))


def deep(recipe):
    return copy.deepcopy(recipe)

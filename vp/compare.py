"""Result comparison joined on element identity, NaN-pattern aware, with the tolerance policy of
DESIGN.md 2.3 (cross-run comparisons where the arithmetic order may differ) or bit-exactness."""
from __future__ import annotations

import numpy as np

P_COLS = ("p_bar", "p_from_bar", "p_to_bar", "deltap_bar", "dp_friction_loss_bar")
T_COLS = ("t_k", "t_from_k", "t_to_k", "t_outlet_k", "deltat_k")
FLOW_DEP = ("reynolds", "lambda")          # ill-defined on branches with (almost) no flow


def stagnant_lift(*nets):
    """True if a pump / compressor of one of the nets carries zero or reverse flow. Its lift is discontinuous there (curve /
    ratio for mdot >= 0, none for reverse flow), so such a net has no unique solution: two calculations of it may
    legitimately differ (known findings of C07 / C08) and are not compared."""
    for n_ in nets:
        for t_ in ("pump", "compressor"):
            if t_ in n_ and len(n_[t_]) and "res_" + t_ in n_ and len(n_["res_" + t_]) and \
                    (n_["res_" + t_].mdot_from_kg_per_s.dropna() <= 1e-9).any():
                return True
    return False


def laminar_under_turbulent_model(opts, *nets):
    """Colebrook-White and Swamee-Jain are turbulent-flow formulas (Swamee-Jain has a pole at Re ~ 7 and is not monotone
    below Re ~ 1e3): with them a branch in the laminar range makes the pressure-loss law non-monotone and the solution
    non-unique, so two calculations of the same system may end in different states. True if that situation is present."""
    if opts.get("friction_model", "nikuradse") == "nikuradse":
        return False
    for n_ in nets:
        if "res_pipe" in n_ and len(n_.res_pipe) and "reynolds" in n_.res_pipe.columns:
            re = n_.res_pipe.reynolds.values.astype(float)
            if np.any(re[~np.isnan(re)] < 2300.0):
                return True
    return False


def flow_scale(net):
    m = 0.0
    for t in net.keys():
        if t.startswith("res_") and hasattr(net[t], "columns") and "mdot_from_kg_per_s" in net[t].columns and len(net[t]):
            v = np.abs(net[t]["mdot_from_kg_per_s"].values.astype(float))
            v = v[~np.isnan(v)]
            if len(v):
                m = max(m, float(v.max()))
    return m


def res_tables(net):
    return sorted(k for k in net.keys() if k.startswith("res_") and hasattr(net[k], "columns"))


def compare_frames(table, dfa, dfb, scale, exact=False, ptol=1e-8, ttol=1e-6, mrel=1e-6, drel=1e-6, skip_cols=(),
                   mabs=2e-9, mfloor=1e-9):
    """dfa, dfb: result frames with identical index order. returns list of diff dicts."""
    diffs = []
    if list(dfa.columns) != list(dfb.columns):
        return [{"table": table, "column": "<columns>", "a": list(dfa.columns), "b": list(dfb.columns)}]
    if len(dfa) != len(dfb):
        return [{"table": table, "column": "<rows>", "a": len(dfa), "b": len(dfb)}]
    if not len(dfa):
        return diffs
    flowing = None
    if "mdot_from_kg_per_s" in dfa.columns:
        ma = np.abs(dfa["mdot_from_kg_per_s"].values.astype(float))
        mb = np.abs(dfb["mdot_from_kg_per_s"].values.astype(float))
        thr = max(1e-4 * scale, 1e-7)
        flowing = (np.nan_to_num(ma) > thr) & (np.nan_to_num(mb) > thr)
    for c in dfa.columns:
        if c in skip_cols:
            continue
        a = dfa[c].values.astype(float)
        b = dfb[c].values.astype(float)
        na, nb = np.isnan(a), np.isnan(b)
        if not np.array_equal(na, nb):
            i = int(np.flatnonzero(na != nb)[0])
            diffs.append({"table": table, "column": c, "kind": "nan_pattern", "index": _ix(dfa, i), "a": a[i], "b": b[i]})
            continue
        ok = ~na
        if not ok.any():
            continue
        if exact:
            bad = ok & (a != b)
        else:
            d = np.abs(a - b)
            if c in P_COLS:
                tol = ptol * np.maximum(1.0, np.maximum(np.abs(a), np.abs(b)))
                if c == "dp_friction_loss_bar":
                    # reported from the last linearisation (lags the solution by one Newton step); 2.1e-8 bar seen on a value of 1e-7
                    tol = np.maximum(tol, 1e-7 + 1e-6 * np.maximum(np.abs(a), np.abs(b)))
            elif c in T_COLS:
                tol = np.full_like(a, ttol)
            elif "mdot" in c:
                tol = np.full_like(a, mrel * scale + mfloor)
            elif c in FLOW_DEP:
                # Re and lambda are reported from the last linearisation: they lag the final mass flow by one
                # Newton step (<= tol_m in force, `mabs`), i.e. relative uncertainty mabs / |mdot|
                tol = drel * np.maximum(np.abs(a), np.abs(b)) + 1e-12
                # per-pipe values are means over sections formed by differences of a cumulative sum over the whole column:
                # their absolute round-off is eps * (sum of the column), and a single stagnant pipe contributes
                # lambda = 64 / Re ~ 1e9 to that sum
                tol = tol + 2e-15 * float(np.nansum(np.abs(a)) + np.nansum(np.abs(b)))
                if flowing is not None:
                    lag = (mabs + mfloor) / np.maximum(np.minimum(np.nan_to_num(ma), np.nan_to_num(mb)), 1e-300)
                    tol = tol + lag * np.maximum(np.abs(a), np.abs(b))
                    tol = np.where(flowing, tol, np.inf)
            else:   # v_*, vdot, normfactor, qext_w, compr_power
                colmax = float(np.nanmax(np.maximum(np.abs(a[ok]), np.abs(b[ok])))) if ok.any() else 0.0
                tol = drel * np.maximum(np.abs(a), np.abs(b)) + drel * colmax + 1e-12
                if "normfactor" not in c and flowing is not None:
                    # velocities / volume flows follow the mass flow: absolute part from the flow tolerance
                    tol = tol + (mrel * scale + mfloor) * np.where(np.nan_to_num(np.abs(a)) > 0,
                                                                 np.abs(a) / np.maximum(np.nan_to_num(ma), 1e-300), 0.0)
            bad = ok & ~(d <= tol)
        if bad.any():
            i = int(np.flatnonzero(bad)[0])
            diffs.append({"table": table, "column": c, "kind": "value", "index": _ix(dfa, i), "a": a[i], "b": b[i],
                          "abs_diff": abs(a[i] - b[i])})
    return diffs


def _ix(df, i):
    v = df.index[i]
    try:
        return int(v)
    except Exception:
        return repr(v)


def compare_nets(a, b, index_maps=None, exact=False, tables=None, skip_cols=(), **tol):
    """Compare all result tables of net a with those of net b. index_maps: {table: {index_in_a: index_in_b}}
    (default identity). Rows are matched by label, never by position."""
    diffs = []
    scale = max(flow_scale(a), flow_scale(b), 1e-12)
    if not exact:
        tol = dict(tol)
        tol["mfloor"] = tol.get("mfloor", 1e-9) + 4.0 * max(cond_flow_tol(a), cond_flow_tol(b))
        if any("circ_pump_mass" in n_ and len(n_["circ_pump_mass"]) for n_ in (a, b)):
            # loop fed by a mass-flow pump: the pressure level of the return side follows from the flow through the free path,
            # which is a small difference of prescribed flows (pump minus consumers, each kept to ~1e-8): seen 2e-6 bar apart
            tol["ptol"] = max(tol.get("ptol", 1e-8), 5e-6)
            tol["ttol"] = max(tol.get("ttol", 1e-6), 1e-4)      # temperatures follow the flow split (6e-6 K seen)
    ta, tb = set(res_tables(a)), set(res_tables(b))
    for t in sorted((ta | tb) if tables is None else tables):
        la = len(a[t]) if t in ta else 0
        lb = len(b[t]) if t in tb else 0
        if la == 0 and lb == 0:
            continue
        if t not in ta or t not in tb:
            diffs.append({"table": t, "column": "<table>", "kind": "missing", "a": la, "b": lb})
            continue
        dfa = a[t]
        imap = (index_maps or {}).get(t[4:])
        if imap is not None:
            want = [imap[i] for i in dfa.index]
        else:
            want = list(dfa.index)
        if set(want) != set(b[t].index):
            diffs.append({"table": t, "column": "<index>", "kind": "index_set", "a": sorted(want)[:10],
                          "b": sorted(b[t].index)[:10]})
            continue
        dfb = b[t].loc[want]
        diffs += compare_frames(t, dfa, dfb, scale, exact=exact, skip_cols=skip_cols, **tol)
    return diffs


def cond_flow_tol(net):
    """A-posteriori bound on how well the mass flows of `net` are determined in double precision.

    A branch obeys dp = c * m|m| with c = (lambda L/d + zeta) / (2 rho A^2 1e5). The solver reproduces pressures to
    round-off eps_p (~1e-15 relative); a branch whose pressure difference is (almost) zero - e.g. a low-resistance
    branch between two junctions of equal pressure - therefore carries a flow that is only determined to
    sqrt(eps_p / c), a flowing branch to eps_p / (2 c |m|). The flow tolerance of cross-run comparisons is widened by
    the largest of these per-branch uncertainties (it propagates through the junction balances of the mesh)."""
    import math
    try:
        rho_n = float(net.fluid.get_density(273.15))
    except Exception:
        return 0.0
    gas = net.fluid.is_gas
    pj = net.res_junction.p_bar
    pmax = float(np.nanmax(np.abs(pj.values))) + 1.1 if len(pj) and pj.notnull().any() else 1.0
    eps_p = 4e-15 * pmax
    worst = 0.0

    def rho_at(j):
        if not gas:
            return rho_n
        p = pj.get(j, np.nan)
        p = (p if not np.isnan(p) else 0.0) + 1.01325
        return max(rho_n * max(p, 0.05) / 1.01325 * 273.15 / 300.0, 1e-3)

    def upd(c, m):
        nonlocal worst
        if c <= 0 or np.isnan(m):
            return
        u = min(math.sqrt(eps_p / c), eps_p / (2 * c * max(abs(m), 1e-300)))
        worst = max(worst, u)
    if "pipe" in net and len(net.pipe):
        for idx, r in net.pipe.iterrows():
            if "res_pipe" not in net or idx not in net.res_pipe.index:
                continue
            m = net.res_pipe.at[idx, "mdot_from_kg_per_s"]
            d = r.inner_diameter_mm / 1e3
            a = math.pi * d * d / 4
            c = (0.008 * r.length_km * 1e3 / d + r.loss_coefficient) / (2 * rho_at(r.from_junction) * a * a * 1e5)
            upd(c, m)
    for t in ("valve", "heat_exchanger"):
        if t in net and len(net[t]):
            for idx, r in net[t].iterrows():
                if "res_" + t not in net or idx not in net["res_" + t].index:
                    continue
                m = net["res_" + t].at[idx, "mdot_from_kg_per_s"]
                d = r.inner_diameter_mm / 1e3
                a = math.pi * d * d / 4
                j = r.junction if t == "valve" else r.from_junction
                upd(r.loss_coefficient / (2 * rho_at(j) * a * a * 1e5), m)
    if "press_control" in net and len(net.press_control):
        for idx, r in net.press_control.iterrows():
            if not r.control_active and "res_press_control" in net and idx in net.res_press_control.index:
                a = math.pi * 0.01 / 4
                upd(r.loss_coefficient / (2 * rho_at(r.from_junction) * a * a * 1e5), net.res_press_control.at[idx, "mdot_from_kg_per_s"])
    return worst

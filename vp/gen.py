"""Hypothesis strategies that produce network recipes (see recipe.py).

Everything random is drawn from Hypothesis so that shrinking and replay work.
"""
from __future__ import annotations

import math

from hypothesis import strategies as st

GAS_FLUIDS = ["lgas", "hgas", "hydrogen", "methane", "air", "biomethane_pure", "biomethane_treated"]
ALL_FLUIDS = ["water"] + GAS_FLUIDS
PIPE_D = [25.0, 50.0, 80.0, 100.0, 150.0, 200.0, 300.0, 500.0]
PUMP_TYPES = ["P1", "P2", "P3"]


def fl(lo, hi):
    s = st.floats(min_value=lo, max_value=hi, allow_nan=False, allow_infinity=False, width=64, allow_subnormal=False)
    if lo <= 0.0 <= hi:
        # no physically meaningless magnitudes such as 2.2e-308 (which, besides, the JSON decoder cannot read back)
        s = s.map(lambda x: 0.0 if abs(x) < 1e-9 else x)
    return s


@st.composite
def label_map(draw, n, scheme=None, cap=300000):
    """injective map position -> label for n rows."""
    scheme = scheme or draw(st.sampled_from(["contiguous", "contiguous", "shuffled", "sparse", "large", "mixed", "stride"]))
    if n == 0:
        return []
    if scheme == "contiguous":
        return list(range(n))
    if scheme == "shuffled":
        return list(draw(st.permutations(list(range(n)))))
    if scheme == "sparse":
        labs = draw(st.lists(st.integers(0, max(4 * n, 10)), min_size=n, max_size=n, unique=True))
        return labs
    if scheme == "large":
        base = draw(st.sampled_from([99990, 100000, 100003, cap - 10 * n - 10]))
        labs = draw(st.lists(st.integers(base, base + 10 * n + 5), min_size=n, max_size=n, unique=True))
        return labs
    if scheme == "stride":
        # multiples of the table length (rotated) plus a small offset: collision pattern of keys built as a * len + b
        rot = draw(st.integers(0, n - 1))
        off = draw(st.integers(0, 1))
        return [n * ((k + rot) % n) + off for k in range(n)]
    # mixed: some small some large, unsorted
    labs = draw(st.lists(st.one_of(st.integers(0, 3 * n + 3), st.integers(99995, 100010)), min_size=n, max_size=n,
                         unique=True))
    return labs


@st.composite
def hyd_net(draw, max_n=10, fluids=None, allow_oos=True, allow_pi=True, allow_ctrl=True, allow_heights=True,
            labels=True, max_sections=4, sectors=True, liquids_only=False, gases_only=False, zero_load_p=0.04,
            t_uniform=False, allow_pumps=True, min_n=2, allow_parallel=True, extra_edges=4, all_flowing=False,
            allow_lift=True, lift_bias=2, max_eg=3, pi_parallel=True, pi_every=8):
    fluids = fluids or ALL_FLUIDS
    if all_flowing:
        allow_oos = False
        zero_load_p = 0.0
    if liquids_only:
        fluids = ["water"]
    if gases_only:
        fluids = [f for f in fluids if f != "water"]
    fluid = draw(st.sampled_from(fluids))
    gas = fluid != "water"
    n = draw(st.integers(min_n, max_n))
    if gas:
        p0 = draw(st.sampled_from([0.05, 0.5, 1.0, 4.0, 16.0, 60.0]))
        p0 = p0 * draw(fl(0.8, 1.25))
    else:
        p0 = draw(fl(3.0, 12.0))
    t0 = draw(fl(277.0, 345.0))
    use_h = allow_heights and draw(st.booleans())
    juncs = []
    for i in range(n):
        h = draw(fl(0.0, 80.0)) if use_h else 0.0
        t = t0 if (t_uniform or draw(st.integers(0, 3)) > 0) else draw(fl(277.0, 345.0))
        pn = p0 if draw(st.integers(0, 3)) > 0 else p0 * draw(fl(0.7, 1.2))
        juncs.append({"index": i, "pn_bar": pn, "tfluid_k": t, "height_m": h, "in_service": True})
    # ---- topology
    edges = []
    for i in range(1, n):
        edges.append((draw(st.integers(0, i - 1)), i, "tree"))
    n_extra = draw(st.integers(0, min(extra_edges, n))) if n >= 3 else 0
    for _ in range(n_extra):
        a = draw(st.integers(0, n - 1))
        b = draw(st.integers(0, n - 2))
        if b >= a:
            b += 1
        edges.append((a, b, "extra"))
    if allow_parallel and edges and draw(st.integers(0, 4)) == 0:
        a, b, _ = edges[draw(st.integers(0, len(edges) - 1))]
        edges.append((a, b, "parallel"))
    # ---- branch elements
    elements = []
    counters = {}

    def nxt(tbl):
        counters[tbl] = counters.get(tbl, 0) + 1
        return counters[tbl] - 1

    # load scale: rough capacity so that ~90% of nets are feasible
    dset = []
    pipes_at = {}
    for (a, b, kind) in edges:
        if draw(st.booleans()):
            a, b = b, a
        if kind == "tree":
            choices = ["pipe"] * 8 + ["valve"] * 2
            if allow_ctrl:
                choices += ["press_control"] * 2
                if gas and allow_lift:
                    choices += ["compressor"] * lift_bias
                if allow_pumps and allow_lift and not gas:
                    choices += ["pump"] * lift_bias
        else:
            choices = ["pipe"] * 6 + ["valve"] * 2
            if allow_ctrl:
                choices += ["flow_control", "flow_control", "heat_exchanger"]
        typ = draw(st.sampled_from(choices))
        if typ == "pipe":
            d = draw(st.sampled_from(PIPE_D))
            dset.append(d)
            e = {"table": "pipe", "index": nxt("pipe"), "from_junction": a, "to_junction": b,
                 "length_km": draw(st.one_of(fl(0.001, 3.0), fl(0.001, 0.2))),
                 "inner_diameter_mm": d, "k_mm": draw(st.sampled_from([0.001, 0.01, 0.1, 0.5, 1.5])),
                 "loss_coefficient": draw(st.sampled_from([0.0, 0.0, 0.0, 0.5, 2.5, 10.0])),
                 "sections": draw(st.integers(1, max_sections)) if draw(st.integers(0, 2)) == 0 else 1,
                 "in_service": True}
            elements.append(e)
            pipes_at.setdefault(a, []).append(e["index"])
            pipes_at.setdefault(b, []).append(e["index"])
            if allow_pi and draw(st.integers(0, pi_every - 1)) == 0:
                # junction-pipe valves: one at one end, one at either end, or two in parallel at the same end
                where = draw(st.sampled_from(["a", "b", "a", "b", "ab", "ab"] + (["aa"] if pi_parallel else [])))
                for w in where:
                    # two valves in parallel without any loss would form a loop without resistance: the circulation in it
                    # is undetermined, so parallel valves always get a loss coefficient
                    zetas = [1.0, 5.0] if where == "aa" else [0.0, 1.0, 5.0]
                    elements.append({"table": "valve", "index": nxt("valve"), "junction": a if w == "a" else b,
                                     "element": e["index"], "et": "pi", "inner_diameter_mm": d,
                                     "opened": True, "loss_coefficient": draw(st.sampled_from(zetas))})
        elif typ == "valve":
            d = draw(st.sampled_from(PIPE_D))
            elements.append({"table": "valve", "index": nxt("valve"), "junction": a, "element": b, "et": "ju",
                             "inner_diameter_mm": d, "opened": True,
                             "loss_coefficient": draw(st.sampled_from([0.0, 0.0, 1.0, 8.0]))})
        elif typ == "pump":
            a, b = min(a, b), max(a, b)     # pumps and compressors point away from the root feeder
            elements.append({"table": "pump", "index": nxt("pump"), "from_junction": a, "to_junction": b,
                             "std_type": draw(st.sampled_from(PUMP_TYPES)), "in_service": True})
        elif typ == "compressor":
            a, b = min(a, b), max(a, b)
            elements.append({"table": "compressor", "index": nxt("compressor"), "from_junction": a,
                             "to_junction": b, "pressure_ratio": draw(fl(1.0, 2.5)), "in_service": True})
        elif typ == "press_control":
            # tree edge (parent, child) -> direct from the root side to the leaf side
            lo, hi = min(a, b), max(a, b)
            elements.append({"table": "press_control", "index": nxt("press_control"), "from_junction": lo,
                             "to_junction": hi, "controlled_junction": hi,
                             "controlled_p_bar": p0 * draw(fl(0.5, 0.95)),
                             "control_active": draw(st.integers(0, 5)) > 0,
                             "loss_coefficient": draw(st.sampled_from([0.0, 0.0, 2.0])),
                             "in_service": True, "check_controllability": False})
            if allow_oos and draw(st.booleans()):
                # stand-by regulator line: a second controller for the same junction that is out of service (two
                # in-service active controllers on one junction would be over-determined)
                sb = dict(elements[-1], index=nxt("press_control"), in_service=False, control_active=True,
                          controlled_p_bar=p0 * draw(fl(0.3, 0.99)))
                if draw(st.booleans()):
                    elements.insert(len(elements) - 1, sb)
                else:
                    elements.append(sb)
        elif typ == "flow_control":
            elements.append({"table": "flow_control", "index": nxt("flow_control"), "from_junction": a,
                             "to_junction": b, "controlled_mdot_kg_per_s": None,  # filled below
                             "control_active": draw(st.integers(0, 5)) > 0, "in_service": True})
        elif typ == "heat_exchanger":
            elements.append({"table": "heat_exchanger", "index": nxt("heat_exchanger"), "from_junction": a,
                             "to_junction": b, "qext_w": draw(fl(-2e4, 2e4)),
                             "inner_diameter_mm": draw(st.sampled_from([80.0, 100.0, 150.0, 200.0])),
                             "loss_coefficient": draw(st.sampled_from([0.0, 1.0, 5.0])), "in_service": True})
    # crude capacity: the flow that one pipe alone could carry with the available pressure drop
    if gas:
        rho = 0.8 * (p0 + 1.0)
        dp_av = 0.15 * (p0 + 1.0) * 1e5
    else:
        rho = 1000.0
        dp_av = min(1.5, 0.4 * p0) * 1e5
    caps = []
    for e in elements:
        if e["table"] == "pipe":
            d_m = e["inner_diameter_mm"] / 1000.0
            a_m = math.pi * d_m ** 2 / 4
            k_tot = 0.04 * e["length_km"] * 1000.0 / d_m + e["loss_coefficient"] + 1.0
            caps.append(a_m * math.sqrt(2 * rho * dp_av / k_tot))
    mscale = (min(caps) if caps else 0.05 * rho / 100.0) * 0.7
    for e in elements:
        if e["table"] == "flow_control":
            e["controlled_mdot_kg_per_s"] = mscale * draw(fl(0.02, 0.3))
    # ---- feeders
    n_eg = draw(st.sampled_from([k_ for k_ in [1, 1, 1, 2, 2, 3] if k_ <= max_eg]))
    pc_controlled = {e["controlled_junction"] for e in elements if e["table"] == "press_control"}
    free_j = [i for i in range(n) if i not in pc_controlled]
    for k in range(n_eg):
        # a junction that is pressure-controlled must not carry an ext grid as well (over-determined)
        j = 0 if k == 0 else free_j[draw(st.integers(0, len(free_j) - 1))]
        typ = draw(st.sampled_from(["pt", "pt", "p", "auto"]))
        pe = p0 if (k == 0 or draw(st.booleans())) else p0 * draw(fl(0.9, 1.1))
        e = {"table": "ext_grid", "index": nxt("ext_grid"), "junction": j, "p_bar": pe,
             "t_k": juncs[j]["tfluid_k"], "type": typ, "in_service": True}
        elements.append(e)
    # ---- loads
    zero = draw(st.floats(0, 1)) < zero_load_p
    n_loads = draw(st.integers(0 if zero else 1, max(1, min(2 * n, 8))))
    for _ in range(n_loads):
        j = draw(st.integers(0, n - 1))
        kind = draw(st.sampled_from(["sink", "sink", "sink", "source", "mass_storage"]))
        m = 0.0 if zero else mscale / n_loads * draw(fl(0.05, 1.0))
        if kind == "mass_storage":
            m = m * draw(st.sampled_from([1.0, -1.0]))
        if kind == "source":
            m = m * 0.5
        e = {"table": kind, "index": nxt(kind), "junction": j, "mdot_kg_per_s": m,
             "scaling": draw(st.sampled_from([1.0, 1.0, 1.0, 0.5, 2.0] + ([] if all_flowing else [0.0]))),
             "in_service": True}
        elements.append(e)
    if not zero:
        # a pump / compressor without consumption behind it sits at the discontinuity of its lift (zero flow):
        # give its outlet junction a consumer
        for e in list(elements):
            if e["table"] in ("pump", "compressor", "press_control"):
                elements.append({"table": "sink", "index": nxt("sink"), "junction": e["to_junction"],
                                 "mdot_kg_per_s": mscale / max(n_loads, 1) * draw(fl(0.2, 1.0)), "scaling": 1.0,
                                 "in_service": True})
    if all_flowing:
        # every dead end gets a consumer so that (almost) every branch carries flow
        deg = {i: 0 for i in range(n)}
        for (a, b, _) in edges:
            deg[a] += 1
            deg[b] += 1
        loaded = {e["junction"] for e in elements if e["table"] in ("sink", "source", "mass_storage", "ext_grid")}
        for i in range(n):
            if deg[i] <= 1 and i not in loaded:
                elements.append({"table": "sink", "index": nxt("sink"), "junction": i,
                                 "mdot_kg_per_s": mscale / max(n_loads, 1) * draw(fl(0.05, 1.0)), "scaling": 1.0,
                                 "in_service": True})
    # ---- status flags (drawn last)
    if allow_oos:
        pattern = draw(st.sampled_from(["none", "none", "sparse", "dense"]))
        prob = {"none": 0, "sparse": 12, "dense": 4}[pattern]
        if prob:
            for e in elements:
                if draw(st.integers(0, prob - 1)) == 0:
                    if e["table"] == "valve":
                        e["opened"] = False
                    elif e["table"] == "ext_grid" and e["index"] == 0:
                        continue
                    else:
                        e["in_service"] = False
            for j in juncs[1:]:
                if draw(st.integers(0, 3 * prob - 1)) == 0:
                    j["in_service"] = False
    rec = {"fluid": fluid, "sector": "all", "junction": juncs, "elements": elements}
    if sectors:
        rec["sector"] = draw(st.sampled_from(["all", "all", "gas" if gas else "water", "None"]))
        if rec["sector"] in ("gas", "water") and any(e["table"] in ("heat_exchanger",) for e in elements):
            rec["sector"] = "all"
    # ---- creation order (non-junction elements); pi valves must follow their pipe
    if draw(st.booleans()):
        perm = draw(st.permutations(list(range(len(elements)))))
        rec["elements"] = fix_pi_order([elements[i] for i in perm])
    if labels:
        rec = draw(relabel(rec))
    return rec


@st.composite
def transport_net(draw, max_n=8, fluids=None):
    """A distribution net (tree / meshes, any library fluid incl. gases, valves, heights, several feeders) dressed for a
    thermal calculation: pipes get heat-transfer coefficients and ambient temperatures, every external grid fixes pressure
    AND temperature (own feed temperature each), and nothing injects mass without a temperature (sources become sinks,
    storages charge), so that every flowing stream has a defined temperature."""
    fluids = fluids or (["water"] * 3 + GAS_FLUIDS)
    rec = draw(hyd_net(max_n=max_n, fluids=fluids, allow_ctrl=False, allow_lift=False, zero_load_p=0.0, max_eg=2,
                       max_sections=3, allow_oos=draw(st.booleans())))
    k = 0
    for e in rec["elements"]:
        if e["table"] == "pipe":
            e["u_w_per_m2k"] = draw(st.sampled_from([0.0, 1.0, 5.0, 20.0]))
            e["text_k"] = draw(st.sampled_from(["nan", 270.0, 290.0]))
            if draw(st.integers(0, 3)) == 0:
                e["outer_diameter_mm"] = e["inner_diameter_mm"] + draw(st.sampled_from([10.0, 40.0]))
        elif e["table"] == "ext_grid":
            e["type"] = "pt"
            e["t_k"] = draw(fl(280.0, 380.0))
        elif e["table"] == "source":
            e["table"] = "sink"
            e["index"] = 700000 + k
            k += 1
        elif e["table"] == "mass_storage":
            e["mdot_kg_per_s"] = abs(e["mdot_kg_per_s"])
    if rec.get("row_order"):
        rec["row_order"].pop("source", None)
        rec["row_order"].pop("sink", None)
    rec["meta"] = {"feeder": "transport"}
    return rec


@st.composite
def grid_net(draw, max_side=12):
    """Large meshed net (nx x ny lattice, 20 .. max_side^2 junctions) described by a handful of drawn numbers: pipe
    parameters cycle through short drawn lists, loads sit on every k-th junction, 1-3 feeders. Used where a bound must not
    grow with the size of the network."""
    nx = draw(st.integers(4, max_side))
    ny = draw(st.integers(3, max_side))
    fluid = draw(st.sampled_from(["water", "lgas", "hgas", "hydrogen"]))
    gas = fluid != "water"
    p0 = draw(st.sampled_from([0.1, 1.0, 16.0])) if gas else draw(st.sampled_from([4.0, 10.0]))
    t0 = draw(fl(280.0, 330.0))
    ds = draw(st.lists(st.sampled_from([80.0, 100.0, 150.0, 200.0, 300.0]), min_size=1, max_size=4))
    ls = draw(st.lists(fl(0.02, 0.4), min_size=1, max_size=5))
    secs = draw(st.lists(st.sampled_from([1, 1, 1, 2, 3]), min_size=1, max_size=3))
    hstep = draw(st.sampled_from([0.0, 0.0, 0.5, 2.0]))
    n = nx * ny
    juncs = [{"index": i, "pn_bar": p0, "tfluid_k": t0, "height_m": hstep * ((i % nx) + (i // nx)), "in_service": True}
             for i in range(n)]
    elements = []
    k = 0
    for y in range(ny):
        for x in range(nx):
            i = y * nx + x
            for j in ([i + 1] if x + 1 < nx else []) + ([i + nx] if y + 1 < ny else []):
                a, b = (i, j) if (k % 3) else (j, i)
                elements.append({"table": "pipe", "index": k, "from_junction": a, "to_junction": b, "length_km": ls[k % len(ls)],
                                 "inner_diameter_mm": ds[k % len(ds)], "k_mm": 0.1, "loss_coefficient": 0.0,
                                 "sections": secs[k % len(secs)], "in_service": True})
                k += 1
    every = draw(st.integers(2, 7))
    m_each = draw(fl(0.2, 1.0)) * (0.002 if gas else 0.05) * (p0 + 1.0 if gas else 1.0)
    li = 0
    for i in range(1, n):
        if i % every == 0:
            tbl = "sink" if (li % 5) else "source"
            elements.append({"table": tbl, "index": li, "junction": i, "mdot_kg_per_s": m_each * (0.3 if tbl == "source" else 1.0),
                             "scaling": 1.0, "in_service": True})
            li += 1
    corners = [0, n - 1, nx - 1]
    for e_i in range(draw(st.integers(1, 3))):
        elements.append({"table": "ext_grid", "index": e_i, "junction": corners[e_i], "p_bar": p0 * (1.0 + 0.02 * e_i), "t_k": t0,
                         "type": "pt", "in_service": True})
    return {"fluid": fluid, "sector": "all", "junction": juncs, "elements": elements, "meta": {"grid": [nx, ny]}}


@st.composite
def two_districts(draw, max_n=7):
    """A tree net cut into two districts by a closed valve / an out-of-service pipe, each district with its own external
    grid: switching one grid changes what is supplied without changing any branch or junction."""
    rec = draw(hyd_net(max_n=max_n, min_n=3, extra_edges=0, allow_parallel=False, allow_ctrl=False, allow_lift=False,
                       allow_pi=False, max_eg=1, allow_oos=False, labels=False, sectors=False, zero_load_p=0.0))
    from .recipe import BRANCH_TABLES, FROM_TO
    br = [e for e in rec["elements"] if e["table"] in BRANCH_TABLES]
    cut = br[draw(st.integers(0, len(br) - 1))]
    if cut["table"] == "valve":
        cut["opened"] = False
    else:
        cut["in_service"] = False
    adj = {}
    for e in br:
        if e is cut:
            continue
        a, b = FROM_TO[e["table"]]
        adj.setdefault(e[a], set()).add(e[b])
        adj.setdefault(e[b], set()).add(e[a])
    eg = next(e for e in rec["elements"] if e["table"] == "ext_grid")
    seen, todo = {eg["junction"]}, [eg["junction"]]
    while todo:
        for m in adj.get(todo.pop(), ()):
            if m not in seen:
                seen.add(m)
                todo.append(m)
    other = [j["index"] for j in rec["junction"] if j["index"] not in seen]
    if other:
        j2 = other[draw(st.integers(0, len(other) - 1))]
        rec["elements"].append({"table": "ext_grid", "index": eg["index"] + 1, "junction": j2, "p_bar": eg["p_bar"],
                                "t_k": eg["t_k"], "type": "pt", "in_service": draw(st.booleans())})
    rec["meta"] = {"two_districts": True}
    return rec


def fix_pi_order(elements):
    """stable fix-up of a creation order: junction-pipe valves are moved behind their pipe."""
    placed, out, pending = set(), [], []
    for e in elements:
        if e["table"] == "valve" and e["et"] == "pi" and e["element"] not in placed:
            pending.append(e)
            continue
        out.append(e)
        if e["table"] == "pipe":
            placed.add(e["index"])
            for p in [p for p in pending if p["element"] == e["index"]]:
                out.append(p)
                pending.remove(p)
    out.extend(pending)
    return out


def apply_label_maps(rec, jmap, tmaps, row_orders=None):
    """jmap: dict old junction label -> new; tmaps: {table: dict old->new}. Returns a new recipe."""
    import copy
    from .recipe import FROM_TO
    out = copy.deepcopy(rec)
    for j in out["junction"]:
        j["index"] = jmap[j["index"]]
    pmap = tmaps.get("pipe", {})
    for e in out["elements"]:
        t = e["table"]
        e["index"] = tmaps.get(t, {}).get(e["index"], e["index"])
        if t == "valve":
            e["junction"] = jmap[e["junction"]]
            e["element"] = pmap.get(e["element"], e["element"]) if e["et"] == "pi" else jmap[e["element"]]
        elif t in FROM_TO:
            a, b = FROM_TO[t]
            e[a] = jmap[e[a]]
            e[b] = jmap[e[b]]
            if t == "press_control":
                e["controlled_junction"] = jmap[e["controlled_junction"]]
        else:
            e["junction"] = jmap[e["junction"]]
    if row_orders is not None:
        out["row_order"] = row_orders
    elif out.get("row_order"):
        ro = {}
        for t, order in out["row_order"].items():
            m = jmap if t == "junction" else tmaps.get(t, {})
            ro[t] = [m.get(i, i) for i in order]
        out["row_order"] = ro
    return out


@st.composite
def relabel(draw, rec, force=False):
    """Random injective relabelling of every table + optional row permutations."""
    tables = {}
    for e in rec["elements"]:
        tables.setdefault(e["table"], []).append(e["index"])
    scheme = draw(st.sampled_from(["contiguous", "shuffled", "sparse", "large", "mixed", "stride"] if force else
                                  ["contiguous", "contiguous", "contiguous", "shuffled", "sparse", "large", "mixed", "stride"]))
    jl = [j["index"] for j in rec["junction"]]
    jm = draw(label_map(len(jl), scheme))
    jmap = dict(zip(jl, jm))
    tmaps = {}
    for t, idxs in sorted(tables.items()):
        sch = scheme if draw(st.booleans()) else draw(st.sampled_from(["contiguous", "shuffled", "sparse", "large", "stride"]))
        tm = draw(label_map(len(idxs), sch))
        tmaps[t] = dict(zip(idxs, tm))
    out = apply_label_maps(rec, jmap, tmaps)
    if draw(st.booleans()) or force:
        ro = {}
        jn = [j["index"] for j in out["junction"]]
        if draw(st.booleans()):
            ro["junction"] = list(draw(st.permutations(jn)))
        tabs = {}
        for e in out["elements"]:
            tabs.setdefault(e["table"], []).append(e["index"])
        for t, idxs in sorted(tabs.items()):
            if len(idxs) > 1 and draw(st.booleans()):
                ro[t] = list(draw(st.permutations(idxs)))
        if ro:
            out["row_order"] = ro
    return out


@st.composite
def hyd_case(draw, tight=None, numba=None, fm_weights=(4, 2, 1), **kw):
    """(recipe, options): the friction model is drawn first because Colebrook-White does not converge on
    branches with (almost) zero flow - for it every dead end carries a load and nothing is out of service."""
    fm = draw(st.sampled_from(["nikuradse"] * fm_weights[0] + ["swamee-jain"] * fm_weights[1] + ["colebrook"] * fm_weights[2]))
    if fm != "nikuradse":
        # Colebrook-White (implicit) and Swamee-Jain (singular at Re ~ 7) are turbulent-flow formulas: they fail on
        # branches with (almost) no flow, so these models get nets in which every branch carries flow
        kw = dict(kw, all_flowing=True, allow_ctrl=False, allow_pi=False, extra_edges=1, allow_parallel=False)
    rec = draw(hyd_net(**kw))
    t = draw(st.booleans()) if tight is None else tight
    opts = draw(hyd_options(tight=t, numba=numba, friction_model=fm))
    return rec, opts


@st.composite
def hyd_options(draw, tight=True, numba=None, friction_model=None):
    from .recipe import TIGHT_HYD
    opts = {"friction_model": friction_model or draw(st.sampled_from(["nikuradse", "colebrook", "swamee-jain"])),
            "use_numba": draw(st.booleans()) if numba is None else numba,
            "nonlinear_method": draw(st.sampled_from(["constant", "constant", "automatic"]))}
    if tight:
        opts.update(TIGHT_HYD)
    else:
        opts["iter"] = 50
    return opts

"""Small reference models written from the documentation: hydraulic / thermal reachability (C04, C18)."""
from __future__ import annotations

from collections import deque

from .recipe import FROM_TO


def _active(e):
    if e["table"] == "valve":
        return bool(e.get("opened", True))
    return bool(e.get("in_service", True))


def graph(recipe):
    """nodes: ('j', junction) and ('v', junction, pipe) for junction-pipe valve nodes.
    edges: list of dicts(table, index, a, b, active, connects, directed)."""
    pi_ends = {}
    for e in recipe["elements"]:
        if e["table"] == "valve" and e["et"] == "pi":
            pi_ends.setdefault((e["element"], e["junction"]), []).append(e)
    edges = []
    for e in recipe["elements"]:
        t = e["table"]
        if t not in FROM_TO:
            continue
        a_col, b_col = FROM_TO[t]
        if t == "valve" and e["et"] == "pi":
            a, b = ("j", e["junction"]), ("v", e["junction"], e["element"])
        else:
            a, b = ("j", e[a_col]), ("j", e[b_col])
            if t == "pipe":
                if (e["index"], e[a_col]) in pi_ends:
                    a = ("v", e[a_col], e["index"])
                if (e["index"], e[b_col]) in pi_ends and e[b_col] != e[a_col]:
                    b = ("v", e[b_col], e["index"])
        connects = True
        if t == "flow_control" and e.get("control_active", True):
            connects = False
        if t == "heat_consumer":
            connects = False
        edges.append({"table": t, "index": e["index"], "a": a, "b": b, "active": _active(e), "connects": connects,
                      "directed": t == "press_control"})
    return edges


def _bfs(sources, edges, use):
    adj = {}
    for ed in edges:
        if not use(ed):
            continue
        adj.setdefault(ed["a"], []).append(ed["b"])
        if not ed["directed"]:
            adj.setdefault(ed["b"], []).append(ed["a"])
    seen = set(sources)
    dq = deque(sources)
    while dq:
        n = dq.popleft()
        for m in adj.get(n, ()):
            if m not in seen:
                seen.add(m)
                dq.append(m)
    return seen


def hydraulic_sources(recipe):
    jin = {j["index"]: j.get("in_service", True) for j in recipe["junction"]}
    src = set()
    for e in recipe["elements"]:
        if e["table"] == "ext_grid" and e.get("in_service", True) and e.get("type", "auto") in ("p", "pt", "auto"):
            if e.get("type", "auto") == "auto" and e.get("p_bar") is None:
                continue
            if jin[e["junction"]]:
                src.add(("j", e["junction"]))
        if e["table"] in ("circ_pump_pressure", "circ_pump_mass") and e.get("in_service", True):
            if e.get("type", "auto") in ("p", "pt", "auto") and jin[e["flow_junction"]]:
                src.add(("j", e["flow_junction"]))
    return src


def reach(recipe):
    """Expected result pattern of a hydraulic calculation with connectivity check.
    returns dict(nodes=set of supplied nodes, junctions=set, branch={(table,index): bool})"""
    edges = graph(recipe)
    src = hydraulic_sources(recipe)
    nodes = _bfs(src, edges, lambda ed: ed["active"] and ed["connects"])
    branch = {}
    for ed in edges:
        if ed["connects"]:
            ok = ed["active"] and ed["a"] in nodes and (ed["b"] in nodes)
        else:
            ok = ed["active"] and ed["a"] in nodes and ed["b"] in nodes
        branch[(ed["table"], ed["index"])] = ok
    return {"nodes": nodes, "junctions": {n[1] for n in nodes if n[0] == "j"}, "branch": branch, "edges": edges}


def thermal_reach(recipe, hyd):
    """thermally connected nodes / branches (sequential, bidirectional): reachable from an in-service temperature
    feed on a hydraulically supplied junction over hydraulically connected branches."""
    src = set()
    for e in recipe["elements"]:
        if e["table"] == "ext_grid" and e.get("in_service", True):
            typ = e.get("type", "auto")
            if typ == "auto":
                typ = ("p" if e.get("p_bar") is not None else "") + ("t" if e.get("t_k") is not None else "")
            if "t" in typ and ("j", e["junction"]) in hyd["nodes"]:
                src.add(("j", e["junction"]))
        if e["table"] in ("circ_pump_pressure", "circ_pump_mass") and e.get("in_service", True):
            if ("j", e["flow_junction"]) in hyd["nodes"]:
                src.add(("j", e["flow_junction"]))
    edges = hyd["edges"]
    nodes = _bfs(src, edges, lambda ed: hyd["branch"][(ed["table"], ed["index"])])
    branch = {(ed["table"], ed["index"]): hyd["branch"][(ed["table"], ed["index"])] and ed["a"] in nodes and ed["b"] in nodes
              for ed in edges}
    return {"nodes": nodes, "junctions": {n[1] for n in nodes if n[0] == "j"}, "branch": branch}

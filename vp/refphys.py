"""Independent physics re-implementation, written from doc/source/components/pipe/pipe_component.rst,
junction_component.rst and constants.py. Fluid tables are parsed from the library .txt files here
(no call into pandapipes.properties)."""
from __future__ import annotations

import math
import os

G = 9.81
T_N = 273.15
P_N = 1.01325
H_EXP = 5.255
T_GRAD = 0.0065
T_AVG = 288.15
P_CONV = 1e5


def pp_dir():
    import pandapipes
    return os.path.dirname(pandapipes.__file__)


def parse_txt(path):
    rows = []
    with open(path) as f:
        for line in f:
            line = line.split("#")[0].strip()
            if line:
                rows.append([float(x) for x in line.replace(",", " ").split()])
    return rows


def lin_interp(xs, ys, q):
    n = len(xs)
    if q <= xs[0]:
        i = 0
    elif q >= xs[-1]:
        i = n - 2
    else:
        lo, hi = 0, n - 1
        while hi - lo > 1:
            mid = (lo + hi) // 2
            if xs[mid] <= q:
                lo = mid
            else:
                hi = mid
        i = lo
    x0, x1, y0, y1 = xs[i], xs[i + 1], ys[i], ys[i + 1]
    return y0 + (y1 - y0) * (q - x0) / (x1 - x0)


class RefFluid:
    """Library fluid read from the data files, or a constant-property fluid from a recipe."""
    _cache = {}

    def __init__(self, spec):
        if isinstance(spec, str):
            d = os.path.join(pp_dir(), "properties", spec)
            self.name = spec
            self.is_gas = spec != "water"
            self.tab = {}
            for p in ("density", "viscosity", "heat_capacity"):
                rows = parse_txt(os.path.join(d, p + ".txt"))
                self.tab[p] = ([r[0] for r in rows], [r[1] for r in rows])
            self.comp_slope, self.comp_offset = parse_txt(os.path.join(d, "compressibility.txt"))[0]
            self.const = None
        else:
            c = spec["const"]
            self.name = c.get("name", "const")
            self.is_gas = c.get("fluid_type", "liquid") == "gas"
            self.const = c
            self.comp_slope, self.comp_offset = 0.0, c.get("compressibility", 1.0)

    @classmethod
    def get(cls, spec):
        key = spec if isinstance(spec, str) else repr(sorted(spec["const"].items()))
        if key not in cls._cache:
            cls._cache[key] = cls(spec)
        return cls._cache[key]

    def _prop(self, p, t):
        if self.const is not None:
            return float(self.const[p])
        xs, ys = self.tab[p]
        return lin_interp(xs, ys, t)

    def density(self, t):
        return self._prop("density", t)

    def viscosity(self, t):
        return self._prop("viscosity", t)

    def heat_capacity(self, t):
        return self._prop("heat_capacity", t)

    def compressibility(self, p_abs):
        return self.comp_offset + self.comp_slope * p_abs


def p_amb(h):
    return P_N * (1.0 - h * T_GRAD / T_AVG) ** H_EXP


def mean_pressure(pf, pt):
    # 2/3 (pf^3 - pt^3) / (pf^2 - pt^2) with the common factor (pf - pt) cancelled: stable for pf ~ pt
    return 2.0 / 3.0 * (pf * pf + pf * pt + pt * pt) / (pf + pt)


def gas_density(fl: RefFluid, p_abs, t):
    return fl.density(T_N) * T_N * p_abs / (t * P_N * fl.compressibility(p_abs))


def colebrook(re, k, d):
    """root of 1/sqrt(l) + 2 log10(2.51/(re sqrt(l)) + k/(3.71 d)) by bisection on l (monotone in l)."""
    def f(lam):
        return 1.0 / math.sqrt(lam) + 2.0 * math.log10(2.51 / (re * math.sqrt(lam)) + k / (3.71 * d))
    lo, hi = 1e-8, 1e6
    flo, fhi = f(lo), f(hi)
    if not (flo > 0 > fhi):
        return float("nan")
    for _ in range(400):
        mid = math.sqrt(lo * hi)
        fm = f(mid)
        if fm > 0:
            lo = mid
        else:
            hi = mid
        if hi / lo - 1.0 < 1e-15:
            break
    return math.sqrt(lo * hi)


def friction_factor(model, re, k, d, gas):
    if re <= 0:
        return float("nan")
    if model == "nikuradse":
        if gas:
            nik = 1.0 / (2.0 * math.log10(d / k) + 1.14) ** 2
        else:
            nik = 1.0 / (-2.0 * math.log10(k / (3.71 * d))) ** 2
        return 64.0 / re + nik
    if model == "swamee-jain":
        return 0.25 / math.log10(k / (3.7 * d) + 5.74 / re ** 0.9) ** 2
    if model == "colebrook":
        return colebrook(re, k, d)
    raise ValueError(model)


def branch_state(fl: RefFluid, model, m, pf_g, pt_g, hf, ht, t_from, t_out, length, d, k, zeta, lift=0.0):
    """Everything that follows from the reported mass flow, gauge end pressures, heights and temperatures of one
    branch (section). Returns a dict with the momentum residual [bar] and the derived quantities."""
    area = math.pi * d * d / 4.0
    pf, pt = pf_g + p_amb(hf), pt_g + p_amb(ht)
    tm = (t_from + t_out) / 2.0
    out = {"p_from_abs": pf, "p_to_abs": pt, "area": area}
    if fl.is_gas:
        pm = mean_pressure(pf, pt)
        eta = fl.viscosity(tm)
        rho = (gas_density(fl, pf, t_from) + gas_density(fl, pt, t_out)) / 2.0
        rho_n = fl.density(T_N)
    else:
        pm = (pf + pt) / 2.0
        eta = fl.viscosity(tm)
        rho = (fl.density(t_from) + fl.density(t_out)) / 2.0
        rho_n = None
    re = abs(m) * d / (eta * area)
    lam = friction_factor(model, re, k, d, fl.is_gas) if (re > 0 and length > 0) else (
        friction_factor(model, re, k, d, fl.is_gas) if re > 0 else float("nan"))
    fric = ((lam * length / d) if length > 0 else 0.0) + zeta
    if math.isnan(fric):
        fric = zeta
    hydro = rho * G * (hf - ht) / P_CONV
    if fl.is_gas:
        loss = P_N / (T_N * P_CONV * rho_n * area ** 2) * fl.compressibility(pm) * m * abs(m) * fric * tm / (pf + pt)
        vn = m / (rho_n * area)
        nf_from = P_N * t_from / T_N * fl.compressibility(pf) / pf
        nf_to = P_N * t_out / T_N * fl.compressibility(pt) / pt
        nf_mean = P_N * tm / T_N * fl.compressibility(pm) / pm
        out.update(v_from=vn * nf_from, v_to=vn * nf_to, v_mean=vn * nf_mean, normfactor_from=nf_from,
                   normfactor_to=nf_to, vdot_norm=m / rho_n, p_mean_abs=pm)
    else:
        loss = fric * m * abs(m) / (2.0 * rho * area ** 2 * P_CONV)
        out.update(v_mean=m / (rho * area), vdot=m / rho)
    out.update(residual=pf - pt + lift + hydro - loss, loss=loss, hydro=hydro, reynolds=re, lam=lam, rho=rho, eta=eta, tm=tm)
    return out

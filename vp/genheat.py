"""District-heating loop recipes: supply tree + mirrored return tree, feeders, consumers."""
from __future__ import annotations

from hypothesis import strategies as st

from .gen import fl, relabel
from .recipe import TIGHT_HEAT

CONSUMER_MODES = ["mf_q", "mf_dt", "mf_tr", "q_dt", "q_tr", "hex", "hex_free"]


@st.composite
def heat_net(draw, max_n=6, labels=True, feeders=None, allow_oos=False, max_sections=4, const_fluid=False,
             allow_mesh=True, modes=None, allow_neg_q=True, allow_makeup=False, second_feeder=True, booster=False):
    n = draw(st.integers(1, max_n))
    t0 = draw(fl(300.0, 330.0))          # start temperature of all junctions
    tf = draw(fl(340.0, 390.0))          # feed temperature
    p_flow = draw(fl(5.0, 9.0))
    juncs = [{"index": i, "pn_bar": p_flow if i < n else p_flow - 2.0, "tfluid_k": t0, "height_m": 0.0,
              "in_service": True} for i in range(2 * n)]
    elements = []
    cnt = {}

    def nxt(t):
        cnt[t] = cnt.get(t, 0) + 1
        return cnt[t] - 1

    def pipe(a, b):
        if draw(st.integers(0, 3)) == 0:
            a, b = b, a
        d = draw(st.sampled_from([40.0, 50.0, 80.0, 100.0]))
        od = draw(st.sampled_from(["nan", "nan", d, d + 20.0]))
        return {"table": "pipe", "index": nxt("pipe"), "from_junction": a, "to_junction": b,
                "length_km": draw(fl(0.02, 1.0)), "inner_diameter_mm": d, "outer_diameter_mm": od,
                "k_mm": draw(st.sampled_from([0.01, 0.1, 0.5])), "loss_coefficient": 0.0,
                "sections": draw(st.integers(1, max_sections)) if draw(st.booleans()) else 1,
                "u_w_per_m2k": draw(st.sampled_from([0.0, 0.5, 2.0, 10.0, 20.0])),
                "text_k": draw(st.one_of(st.just("nan"), fl(260.0, 300.0))), "in_service": True}

    par = [draw(st.integers(0, i - 1)) for i in range(1, n)]
    for i, p in enumerate(par, start=1):
        elements.append(pipe(p, i))
        elements.append(pipe(n + i, n + p))
    if allow_mesh and n >= 3 and draw(st.integers(0, 2)) == 0:
        a = draw(st.integers(0, n - 1))
        b = draw(st.integers(0, n - 2))
        b = b + 1 if b >= a else b
        elements.append(pipe(a, b))
        elements.append(pipe(n + b, n + a))
    feeder = draw(st.sampled_from(feeders or ["cpp", "cpp", "cpm", "eg"]))
    leaves = [i for i in range(n) if i not in par] or [0]
    others = [i for i in range(n) if i not in leaves]
    cons = list(leaves)
    for o in others:
        if draw(st.integers(0, 2)) == 0 and not (o == 0 and n > 1):
            cons.append(o)
    tot = 0.0
    has_free = False
    modes = modes or CONSUMER_MODES
    extra_j = 2 * n
    for c in sorted(cons):
        mode = draw(st.sampled_from(modes))
        m = draw(fl(0.05, 0.6))
        q = draw(fl(2e3, 4e4))
        if allow_neg_q and draw(st.integers(0, 7)) == 0:
            q = -q * 0.3
        dt = draw(fl(5.0, 30.0))
        tr = draw(fl(300.0, 335.0))
        base = {"table": "heat_consumer", "index": None, "from_junction": c, "to_junction": n + c, "in_service": True}
        if mode == "mf_q":
            e = dict(base, controlled_mdot_kg_per_s=m, qext_w=q); tot += m
        elif mode == "mf_dt":
            e = dict(base, controlled_mdot_kg_per_s=m, deltat_k=dt); tot += m
        elif mode == "mf_tr":
            e = dict(base, controlled_mdot_kg_per_s=m, treturn_k=tr); tot += m
        elif mode == "q_dt":
            e = dict(base, qext_w=abs(q), deltat_k=dt); tot += abs(q) / (4180.0 * dt)
        elif mode == "q_tr":
            e = dict(base, qext_w=abs(q), treturn_k=tr); tot += abs(q) / (4180.0 * max(tf - tr, 5.0))
        else:
            e = None
        if e is not None:
            e["index"] = nxt("heat_consumer")
            elements.append(e)
        elif mode == "hex":
            juncs.append({"index": extra_j, "pn_bar": p_flow, "tfluid_k": t0, "height_m": 0.0, "in_service": True})
            elements.append({"table": "flow_control", "index": nxt("flow_control"), "from_junction": c,
                             "to_junction": extra_j, "controlled_mdot_kg_per_s": m, "control_active": True,
                             "in_service": True})
            elements.append({"table": "heat_exchanger", "index": nxt("heat_exchanger"), "from_junction": extra_j,
                             "to_junction": n + c, "qext_w": q, "inner_diameter_mm": 50.0,
                             "loss_coefficient": draw(st.sampled_from([0.0, 2.0])), "in_service": True})
            extra_j += 1
            tot += m
        else:  # hex_free: plain exchanger, flow decided by hydraulics
            elements.append({"table": "heat_exchanger", "index": nxt("heat_exchanger"), "from_junction": c,
                             "to_junction": n + c, "qext_w": q * 0.2, "inner_diameter_mm": 25.0,
                             "loss_coefficient": draw(st.sampled_from([50.0, 200.0, 1000.0])), "in_service": True})
            has_free = True
            tot += 0.1
    # a heat exchanger may be declared against the direction in which it is flown through (the pump decides the direction)
    for e in elements:
        if e["table"] == "heat_exchanger" and draw(st.integers(0, 2)) == 0:
            e["from_junction"], e["to_junction"] = e["to_junction"], e["from_junction"]
    typ = draw(st.sampled_from(["pt", "pt", "auto"]))
    if feeder == "cpm" and not has_free:
        # a mass-flow pump needs one free path, else the system is singular
        c = sorted(cons)[0]
        elements.append({"table": "heat_exchanger", "index": nxt("heat_exchanger"), "from_junction": c,
                         "to_junction": n + c, "qext_w": 0.0, "inner_diameter_mm": 25.0,
                         "loss_coefficient": 500.0, "in_service": True})
        tot += 0.1
    if feeder == "cpp":
        elements.append({"table": "circ_pump_pressure", "index": 0, "return_junction": n, "flow_junction": 0,
                         "p_flow_bar": p_flow, "plift_bar": draw(fl(0.5, 3.0)), "t_flow_k": tf, "type": typ,
                         "in_service": True})
    elif feeder == "cpm":
        elements.append({"table": "circ_pump_mass", "index": 0, "return_junction": n, "flow_junction": 0,
                         "p_flow_bar": p_flow, "mdot_flow_kg_per_s": max(tot, 0.05) * draw(fl(1.0, 1.3)),
                         "t_flow_k": tf, "type": typ, "in_service": True})
    else:
        elements.append({"table": "ext_grid", "index": 0, "junction": 0, "p_bar": p_flow, "t_k": tf, "type": "pt",
                         "in_service": True})
        elements.append({"table": "ext_grid", "index": 1, "junction": n, "p_bar": p_flow - draw(fl(0.5, 3.0)),
                         "t_k": t0, "type": "p", "in_service": True})
    if booster and n >= 2:
        # a booster pump (pump component with a characteristic curve) at the head of the first supply pipe: its volume flow
        # and lift depend on the density at the temperature actually reached there
        bj = max(j["index"] for j in juncs) + 1
        first = next((e for e in elements if e["table"] == "pipe" and {e["from_junction"], e["to_junction"]} == {0, 1}), None)
        if first is not None:
            juncs.append({"index": bj, "pn_bar": p_flow, "tfluid_k": t0, "height_m": 0.0, "in_service": True})
            if first["from_junction"] == 0:
                first["from_junction"] = bj
            else:
                first["to_junction"] = bj
            elements.append({"table": "pump", "index": 0, "from_junction": 0, "to_junction": bj,
                             "std_type": draw(st.sampled_from(["P1", "P2", "P3"])), "in_service": True})
    feeder2 = None
    if second_feeder and feeder == "cpp" and draw(st.integers(0, 3)) == 0:
        # a second generator with its own feed temperature: a mass-flow pump in parallel to the main pump (same flow and
        # return junction, same flow pressure), so that the flow junction of a pump is a mixing node (its temperature differs
        # from either pump's t_flow_k). A decentral second pump further down the network is not generated: it fixes a second
        # pressure, which over-determines loops whose consumers prescribe their mass flow (0 of 60 such nets converged).
        feeder2 = "parallel"
        k = 0
        elements.append({"table": "circ_pump_mass", "index": 0, "return_junction": n + k, "flow_junction": k,
                         "p_flow_bar": p_flow if k == 0 else p_flow * draw(fl(0.95, 1.0)),
                         "mdot_flow_kg_per_s": max(tot, 0.05) * draw(fl(0.15, 0.5)),
                         "t_flow_k": tf + draw(fl(-35.0, 25.0)), "type": draw(st.sampled_from(["pt", "auto"])),
                         "in_service": True})
    if allow_makeup and feeder in ("cpp", "cpm") and draw(st.integers(0, 2)) == 0:
        # open loop: net consumption / injection inside the loop, balanced by a make-up ext grid that sits on the pump's
        # flow junction (same pressure as the pump fixes there) or on its return junction
        for _ in range(draw(st.integers(1, 2))):
            tbl = draw(st.sampled_from(["sink", "sink", "source"]))
            elements.append({"table": tbl, "index": nxt(tbl), "junction": draw(st.integers(0, 2 * n - 1)),
                             "mdot_kg_per_s": draw(fl(0.01, 0.3)), "scaling": draw(st.sampled_from([1.0, 1.0, 0.5])),
                             "in_service": True})
        # the make-up grid sits on the pump's flow junction and fixes the pressure only (the junction receives the pump's
        # stream, so it is no pure temperature infeed). On the return junction it does not work: a pressure pump determines
        # that pressure itself (over-determined), and with a mass-flow pump 0 of 17 generated loops converged.
        elements.append({"table": "ext_grid", "index": 0, "junction": 0, "p_bar": p_flow, "t_k": tf,
                         "type": "p", "in_service": True})
    if allow_oos and draw(st.integers(0, 2)) == 0:
        k = draw(st.integers(0, len(elements) - 1))
        e = elements[k]
        if e["table"] not in ("circ_pump_pressure", "circ_pump_mass", "ext_grid"):
            e["in_service"] = False
    fluid = "water"
    if const_fluid:
        fluid = {"const": {"name": "cw", "fluid_type": "liquid", "density": 985.0, "viscosity": 5e-4,
                           "heat_capacity": 4182.0, "molar_mass": 18.0}}
    rec = {"fluid": fluid, "sector": draw(st.sampled_from(["all", "all", "heat", "None"])), "junction": juncs,
           "elements": elements, "meta": {"feeder": feeder, "n": n, "feeder2": feeder2}}
    if rec["sector"] == "heat" and any(e["table"] in ("ext_grid", "flow_control", "sink", "source") for e in elements):
        rec["sector"] = "all"
    if draw(st.booleans()):
        perm = draw(st.permutations(list(range(len(elements)))))
        rec["elements"] = [elements[i] for i in perm]
    if labels:
        rec = draw(relabel(rec))
    return rec


@st.composite
def heat_options(draw, modes=("sequential", "bidirectional"), tight=True):
    opts = {"mode": draw(st.sampled_from(list(modes))), "use_numba": draw(st.booleans()),
            "friction_model": draw(st.sampled_from(["nikuradse", "nikuradse", "colebrook", "swamee-jain"]))}
    if tight:
        opts.update(TIGHT_HEAT)
    else:
        opts["iter"] = 60
    return opts

"""Shared machinery: findings, collectors, Hypothesis driver with known-finding filter and
collect-then-shrink, sharding over spawn processes, evidence / replay writers, exit codes.

Exit codes of `check`: 0 property held on everything explored (KNOWN-FINDING lines allowed),
1 violation (line `VIOLATION property=<id> replay=<path>`), 2 harness error / inconclusive.
"""
from __future__ import annotations

import hashlib
import importlib
import json
import math
import multiprocessing as mp
import os
import sys
import time
import traceback
from collections import Counter

ROOT = os.path.dirname(os.path.dirname(os.path.abspath(__file__)))
KNOWN_FILE = os.path.join(ROOT, "known_findings.json")
# Output directories. Runs against a deliberately broken tree (tools/try_mutant.sh) set VP_OUT_DIR so that the
# committed evidence, which must describe the unchanged tree, is never overwritten by them.
OUT_ROOT = os.environ.get("VP_OUT_DIR") or ROOT


# --------------------------------------------------------------------------------------------
# basic values
# --------------------------------------------------------------------------------------------
class Finding:
    """One violated clause. `signature` identifies the root-cause class (clause + discriminating
    input class); known_findings.json is keyed on it."""

    def __init__(self, clause, signature, detail=None):
        self.clause = clause
        self.signature = signature
        self.detail = detail or {}

    def to_json(self):
        return {"clause": self.clause, "signature": self.signature, "detail": jsonable(self.detail)}

    def __repr__(self):
        return "Finding(%s, %s, %s)" % (self.clause, self.signature, self.detail)


class Outcome:
    def __init__(self, findings=(), labels=(), discard=None, nontrivial=False, sample=None, key=None):
        self.findings = list(findings)
        self.labels = set(labels)
        self.discard = discard
        self.nontrivial = nontrivial
        self.sample = sample
        self.key = key


class HarnessError(Exception):
    pass


class _Violation(Exception):
    pass


def jsonable(x):
    import numpy as np
    if isinstance(x, dict):
        return {str(k): jsonable(v) for k, v in x.items()}
    if isinstance(x, (list, tuple, set, frozenset)):
        return [jsonable(v) for v in x]
    if isinstance(x, (np.bool_,)):
        return bool(x)
    if isinstance(x, (np.integer,)):
        return int(x)
    if isinstance(x, (np.floating, float)):
        x = float(x)
        if math.isnan(x):
            return "nan"
        if math.isinf(x):
            return "inf" if x > 0 else "-inf"
        return x
    if isinstance(x, np.ndarray):
        return jsonable(x.tolist())
    if isinstance(x, (str, int, bool)) or x is None:
        return x
    return repr(x)


def canon_key(case):
    s = json.dumps(jsonable(case), sort_keys=True, separators=(",", ":"))
    return hashlib.sha1(s.encode()).hexdigest()[:16]


def derive_seed(*parts):
    h = hashlib.sha256("/".join(str(p) for p in parts).encode()).digest()
    return int.from_bytes(h[:4], "big")


def load_known(prop_id):
    if not os.path.exists(KNOWN_FILE):
        return {}
    with open(KNOWN_FILE) as f:
        data = json.load(f)
    out = {}
    for e in data.get("entries", []):
        if e.get("property") == prop_id and e.get("status") == "known":
            out[e["signature"]] = e
    return out


# --------------------------------------------------------------------------------------------
# collector: what a shard measured
# --------------------------------------------------------------------------------------------
class Collector:
    MAX_SAMPLES = 4

    def __init__(self):
        self.evaluations = 0
        self.discards = Counter()
        self.labels = Counter()
        self.nontrivial_keys = set()
        self.all_keys = set()
        self.samples = []
        self.known_hits = {}      # signature -> {"count": n, "witness": case-json, "size": int}
        self.violations = []      # dicts: signature, clause, detail, case
        self.extra = {}           # free numeric counters (summed on merge)
        self.maxima = {}          # free maxima (max on merge), e.g. worst observed residual
        self.notes = []

    def record(self, out: Outcome, case=None):
        self.evaluations += 1
        if out.discard:
            self.discards[out.discard] += 1
            return
        for lab in out.labels:
            self.labels[lab] += 1
        key = out.key or (canon_key(case) if case is not None else None)
        if key is not None:
            self.all_keys.add(key)
            if out.nontrivial:
                if key not in self.nontrivial_keys and len(self.samples) < self.MAX_SAMPLES:
                    self.samples.append(jsonable(out.sample if out.sample is not None else case))
                self.nontrivial_keys.add(key)

    def known_hit(self, finding: Finding, case):
        cj = jsonable(case)
        size = len(json.dumps(cj))
        e = self.known_hits.setdefault(finding.signature, {"count": 0, "witness": None, "size": 1 << 60,
                                                           "detail": None})
        e["count"] += 1
        if size < e["size"]:
            e["size"] = size
            e["witness"] = cj
            e["detail"] = jsonable(finding.detail)

    def bump(self, name, n=1):
        self.extra[name] = self.extra.get(name, 0) + n

    def maximum(self, name, v):
        v = float(v)
        if not math.isnan(v):
            self.maxima[name] = max(self.maxima.get(name, 0.0), v)

    def to_dict(self):
        return {"evaluations": self.evaluations, "discards": dict(self.discards), "labels": dict(self.labels),
                "nontrivial_keys": sorted(self.nontrivial_keys), "all_keys_n": len(self.all_keys),
                "all_keys": sorted(self.all_keys),
                "samples": self.samples, "known_hits": self.known_hits, "violations": self.violations,
                "extra": self.extra, "maxima": self.maxima, "notes": self.notes}


def merge(dicts):
    m = {"evaluations": 0, "discards": Counter(), "labels": Counter(), "nontrivial_keys": set(),
         "all_keys": set(), "samples": [], "known_hits": {}, "violations": [], "extra": Counter(),
         "maxima": {}, "notes": []}
    for d in dicts:
        m["evaluations"] += d["evaluations"]
        m["discards"].update(d["discards"])
        m["labels"].update(d["labels"])
        m["nontrivial_keys"].update(d["nontrivial_keys"])
        m["all_keys"].update(d["all_keys"])
        for s in d["samples"]:
            if len(m["samples"]) < 6:
                m["samples"].append(s)
        for sig, e in d["known_hits"].items():
            t = m["known_hits"].setdefault(sig, {"count": 0, "witness": None, "size": 1 << 60, "detail": None})
            t["count"] += e["count"]
            if e["size"] < t["size"]:
                t.update(size=e["size"], witness=e["witness"], detail=e["detail"])
        m["violations"].extend(d["violations"])
        m["extra"].update(d["extra"])
        for k, v in d["maxima"].items():
            m["maxima"][k] = max(m["maxima"].get(k, 0.0), v)
        m["notes"].extend(d["notes"])
    return m


# --------------------------------------------------------------------------------------------
# Hypothesis driver
# --------------------------------------------------------------------------------------------
def run_given(strategy, evaluate, max_examples, seed, coll: Collector, known, shrink_s=45.0,
              max_roots=3, to_case=None):
    """Run `evaluate(case) -> Outcome` over `max_examples` generated cases.

    * findings whose signature is listed as known are counted and skipped, so the search continues
      behind known defects;
    * an unlisted finding makes the test fail; Hypothesis shrinks with that signature pinned; the
      minimal case is recorded as a violation; the signature is excluded and generation restarts
      (collect-then-shrink), up to `max_roots` root causes;
    * shrinking is capped at `shrink_s` seconds of wall clock: afterwards unseen cases pass
      unevaluated and cached failing cases keep failing, which ends the shrink consistently.
    `to_case` maps the drawn value to the JSON-able case stored in replays (default: identity).
    """
    import hypothesis
    from hypothesis import HealthCheck, Phase, given, settings
    from hypothesis.errors import Flaky, FlakyFailure  # noqa: F401

    excluded = set()
    harness = {"trace": None}
    for rnd in range(max_roots):
        st = {"sig": None, "best": None, "t_first": None, "cache": {}}

        def body(drawn):
            case = to_case(drawn) if to_case else drawn
            key = canon_key(case)
            shrinking = st["t_first"] is not None
            if shrinking and time.time() - st["t_first"] > shrink_s:
                if key in st["cache"]:
                    raise _Violation(st["sig"])
                return
            if shrinking and key in st["cache"]:
                raise _Violation(st["sig"])
            try:
                out = evaluate(case)
            except Exception:
                # an exception inside the harness / oracle is never a violation: remember the first one (the run ends with
                # exit 2) but do not let Hypothesis spend minutes shrinking it
                if harness["trace"] is None:
                    harness["trace"] = traceback.format_exc() + "\ncase: " + json.dumps(jsonable(case))[:3000]
                return
            if out.key is None:
                out.key = key
            if not shrinking:
                coll.record(out, case)
            new = []
            for f in out.findings:
                if f.signature in known:
                    if not shrinking:
                        coll.known_hit(f, case)
                elif f.signature not in excluded:
                    new.append(f)
            if new:
                if st["sig"] is None:
                    st["sig"] = new[0].signature
                hit = [f for f in new if f.signature == st["sig"]]
                if hit:
                    st["best"] = (case, hit)
                    st["cache"][key] = True
                    if st["t_first"] is None:
                        st["t_first"] = time.time()
                    raise _Violation(st["sig"])

        test = given(strategy)(body)
        test = hypothesis.seed(derive_seed(seed, rnd))(test)
        test = settings(max_examples=max_examples, database=None, deadline=None, derandomize=False,
                        report_multiple_bugs=False, suppress_health_check=list(HealthCheck),
                        phases=[Phase.generate, Phase.shrink], print_blob=False)(test)
        try:
            test()
        except _Violation:
            pass
        except Exception as e:  # Flaky etc. - record what we have if a failure was seen
            if st["best"] is None:
                raise
            coll.notes.append("hypothesis raised %s while shrinking %s" % (type(e).__name__, st["sig"]))
        if harness["trace"] is not None:
            raise HarnessError(harness["trace"])
        if st["best"] is None:
            return
        case, hit = st["best"]
        coll.violations.append({"signature": st["sig"], "clause": hit[0].clause,
                                "findings": [f.to_json() for f in hit], "case": jsonable(case)})
        excluded.add(st["sig"])
        # fewer examples in the follow-up rounds: the budget was spent once already
        max_examples = max(20, max_examples // 2)


def run_cases(cases, evaluate, coll: Collector, known):
    """Enumerated (non-random) cases: every unlisted finding is a violation (first per signature)."""
    seen = set()
    for case in cases:
        out = evaluate(case)
        coll.record(out, case)
        for f in out.findings:
            if f.signature in known:
                coll.known_hit(f, case)
            elif f.signature not in seen:
                seen.add(f.signature)
                coll.violations.append({"signature": f.signature, "clause": f.clause,
                                        "findings": [f.to_json()], "case": jsonable(case)})


# --------------------------------------------------------------------------------------------
# worker / orchestration
# --------------------------------------------------------------------------------------------
def _quiet():
    import logging
    import warnings
    warnings.filterwarnings("ignore")
    logging.disable(logging.CRITICAL)


def _worker(args):
    prop_id, tier, seed, shard, nshards = args
    try:
        _quiet()
        mod = importlib.import_module("vp.props." + prop_id.lower())
        coll = Collector()
        known = load_known(prop_id)
        mod.run_shard(coll, tier=tier, seed=seed, shard=shard, nshards=nshards, known=known)
        return ("ok", coll.to_dict())
    except BaseException:
        return ("error", traceback.format_exc())


def warmup():
    """Import pandapipes and compile every numba kernel once in the parent; workers are then forked
    (copy-on-write isolation, no per-process JIT cost, no state shared after the fork)."""
    _quiet()
    os.environ.setdefault("NUMBA_NUM_THREADS", "1")
    import pandapipes as pp
    for fluid, mode in (("lgas", "hydraulics"), ("water", "sequential"), ("water", "bidirectional")):
        net = pp.create_empty_network(fluid=fluid)
        j = pp.create_junctions(net, 3, 5.0, 300.0)
        pp.create_ext_grid(net, j[0], 5.0, 350.0, type="pt")
        pp.create_pipe_from_parameters(net, j[0], j[1], 0.1, 100.0, sections=2, u_w_per_m2k=5.0, text_k=280.0)
        pp.create_pipe_from_parameters(net, j[1], j[2], 0.1, 100.0, u_w_per_m2k=5.0, text_k=280.0)
        pp.create_sink(net, j[2], 0.05)
        pp.create_sink(net, j[1], 0.01)
        for nb in (True, False):
            for fm in ("nikuradse", "colebrook"):
                pp.pipeflow(net, mode=mode, use_numba=nb, friction_model=fm)


def run_property(prop_id, tier, seed, jobs):
    t0 = time.time()
    mod = importlib.import_module("vp.props." + prop_id.lower())
    nshards = getattr(mod, "NSHARDS", {}).get(tier, jobs)
    known = load_known(prop_id)
    args = [(prop_id, tier, seed, k, nshards) for k in range(nshards)]
    if getattr(mod, "NEEDS_PANDAPIPES", True):
        warmup()
    if hasattr(mod, "warmup"):
        mod.warmup()
    if nshards == 1 or jobs == 1:
        results = [_worker(a) for a in args]
    else:
        ctx = mp.get_context("fork")
        with ctx.Pool(min(jobs, nshards)) as pool:
            results = pool.map(_worker, args, chunksize=1)
    errs = [r[1] for r in results if r[0] != "ok"]
    if errs:
        sys.stderr.write("HARNESS ERROR in %s:\n%s\n" % (prop_id, errs[0]))
        return 2
    m = merge([r[1] for r in results])
    # regression tier: committed replays of this property (must pass on the unchanged tree)
    reg_dir = os.path.join(ROOT, "regress", prop_id)
    reg_n = 0
    if os.path.isdir(reg_dir) and hasattr(mod, "replay"):
        _quiet()
        for fn in sorted(os.listdir(reg_dir)):
            if not fn.endswith(".json"):
                continue
            with open(os.path.join(reg_dir, fn)) as f:
                rep = json.load(f)
            out = mod.replay(rep["case"])
            reg_n += 1
            for f_ in out.findings:
                if f_.signature in known:
                    t = m["known_hits"].setdefault(f_.signature, {"count": 0, "witness": rep["case"],
                                                                    "size": 0, "detail": jsonable(f_.detail)})
                    t["count"] += 1
                else:
                    m["violations"].append({"signature": f_.signature, "clause": f_.clause,
                                            "findings": [f_.to_json()], "case": rep["case"],
                                            "from_regress": fn})
    wall = time.time() - t0
    # dedupe violations by signature (smallest case wins)
    by_sig = {}
    for v in m["violations"]:
        k = v["signature"]
        if k not in by_sig or len(json.dumps(v["case"])) < len(json.dumps(by_sig[k]["case"])):
            by_sig[k] = v
    rc = 0
    rep_dir = os.path.join(OUT_ROOT, "replays", prop_id)
    lines = []
    for sig, e in sorted(m["known_hits"].items()):
        lines.append("KNOWN-FINDING: property=%s %s [%s] (reproduced %d times)" % (
            prop_id, known[sig].get("what", sig), sig, e["count"]))
    for sig, v in sorted(by_sig.items()):
        os.makedirs(rep_dir, exist_ok=True)
        path = os.path.join(rep_dir, "%s.json" % hashlib.sha1(sig.encode()).hexdigest()[:12])
        with open(path, "w") as f:
            json.dump({"property": prop_id, "signature": sig, "clause": v["clause"],
                       "findings": v["findings"], "case": v["case"], "seed": seed, "tier": tier}, f, indent=1)
        lines.append("VIOLATION property=%s replay=%s" % (prop_id, os.path.relpath(path, ROOT) if OUT_ROOT == ROOT else path))
        lines.append("  signature=%s detail=%s" % (sig, json.dumps(v["findings"][0]["detail"])[:600]))
        rc = 1
    # smallest witness of every known finding reproduced in this run (scratch output; tools/keep_known_witness.py copies
    # them into regress/<property>/known__*.json so that every run shows the KNOWN-FINDING line of every listed finding)
    wdir = os.path.join(OUT_ROOT, "known_witness", prop_id)
    for sig, e in m["known_hits"].items():
        if e.get("witness") is not None and e.get("size", 0) > 0:
            os.makedirs(wdir, exist_ok=True)
            with open(os.path.join(wdir, "known__%s.json" % hashlib.sha1(sig.encode()).hexdigest()[:12]), "w") as fh:
                json.dump({"property": prop_id, "signature": sig, "known_finding": True, "case": e["witness"], "seed": seed,
                           "tier": tier}, fh, indent=1)
    write_evidence(mod, prop_id, tier, seed, m, wall, len(by_sig), known, reg_n)
    for ln in lines:
        print(ln)
    print("%s %s seed=%d: %d evaluations, %d distinct non-trivial, %d discards, %d known-finding hits, "
          "%d violations, %.1fs" % (prop_id, tier, seed, m["evaluations"], len(m["nontrivial_keys"]),
                                    sum(m["discards"].values()), sum(e["count"] for e in m["known_hits"].values()),
                                    len(by_sig), wall))
    return rc


def write_evidence(mod, prop_id, tier, seed, m, wall, nviol, known, reg_n):
    cov = {
        "evaluations": int(m["evaluations"]),
        "distinct_nontrivial": int(len(m["nontrivial_keys"])),
        "distinct_cases": int(len(m["all_keys"])),
        "rule": getattr(mod, "RULE", ""),
        "samples": m["samples"][:6] if m["samples"] else [],
        "labels": dict(sorted(m["labels"].items())),
        "discards": dict(m["discards"]),
        "discard_rate": (sum(m["discards"].values()) / m["evaluations"]) if m["evaluations"] else 0.0,
        "known_findings_reproduced": {s: e["count"] for s, e in m["known_hits"].items()},
        "known_not_reproduced": sorted(set(known) - set(m["known_hits"])),
        "counters": dict(m["extra"]),
        "maxima": m["maxima"],
        "regression_replays_run": reg_n,
        "notes": m["notes"][:10],
    }
    if getattr(mod, "EXHAUSTIVE_NOTE", None):
        cov["exhaustive_subspaces"] = mod.EXHAUSTIVE_NOTE
    ev = {"property_id": prop_id, "tier": tier, "seed": int(seed), "level": "exploration",
          "coverage": cov, "assumptions": list(getattr(mod, "ASSUMPTIONS", [])),
          "wall_s": round(wall, 2), "violations": int(nviol)}
    os.makedirs(os.path.join(OUT_ROOT, "evidence"), exist_ok=True)
    with open(os.path.join(OUT_ROOT, "evidence", prop_id + ".json"), "w") as f:
        json.dump(ev, f, indent=1, sort_keys=True)


def run_replay(prop_id, path):
    _quiet()
    mod = importlib.import_module("vp.props." + prop_id.lower())
    known = load_known(prop_id)
    with open(path) as f:
        rep = json.load(f)
    out = mod.replay(rep["case"])
    rc = 0
    for f_ in out.findings:
        if f_.signature in known:
            print("KNOWN-FINDING: property=%s %s [%s]" % (prop_id, known[f_.signature].get("what", ""), f_.signature))
        else:
            print("VIOLATION property=%s replay=%s" % (prop_id, path))
            print("  signature=%s detail=%s" % (f_.signature, json.dumps(jsonable(f_.detail))[:800]))
            rc = 1
    if not out.findings:
        print("replay %s: property holds on this case%s" % (path, " (discard: %s)" % out.discard if out.discard else ""))
    return rc

import warnings; warnings.filterwarnings("ignore")
import numpy as np, pandas as pd
import pandapipes as pp
pd.set_option("display.width",250); pd.set_option("display.max_columns",50)
for numba in (True, False):
    net = pp.create_empty_network(fluid="water")
    j = pp.create_junctions(net, 4, 5, 300)
    pp.create_ext_grid(net, j[0], 5, 283.15, type="pt")
    pp.create_ext_grid(net, j[1], 5, 372.0, type="pt")
    pp.create_sink(net, j[3], 3.0)
    pp.create_pipe_from_parameters(net, j[0], j[2], 0.1, 80, k_mm=0.1, u_w_per_m2k=0)
    pp.create_pipe_from_parameters(net, j[1], j[2], 0.3, 80, k_mm=0.1, u_w_per_m2k=0)
    pp.create_pipe_from_parameters(net, j[2], j[3], 0.1, 80, k_mm=0.1, u_w_per_m2k=0)
    pp.pipeflow(net, mode="sequential", use_numba=numba, tol_T=1e-8, max_iter_therm=50)
    f = net.fluid
    m = net.res_pipe.mdot_from_kg_per_s.values; tout = net.res_pipe.t_outlet_k.values
    tmix = net.res_junction.t_k[j[2]]
    cpm = lambda a,b: (f.get_heat_capacity(a)+f.get_heat_capacity(b))/2
    bal = sum(m[i]*cpm(tout[i],tmix)*(tout[i]-tmix) for i in (0,1))
    print(numba, "m",m, "tout",tout, "tmix",tmix, "mass-weighted", (m[0]*tout[0]+m[1]*tout[1])/(m[0]+m[1]), "energy residual W", bal)
    # solve energy-conserving T
    from scipy.optimize import brentq
    te = brentq(lambda T: sum(m[i]*cpm(tout[i],T)*(tout[i]-T) for i in (0,1)), 283, 372)
    print("   energy-conserving tmix", te, "cp values", f.get_heat_capacity(np.array([283.15, 372.0, tmix])))
    # exact enthalpy
    print("   cp at 4190 K", f.get_heat_capacity(4190.))

import warnings; warnings.filterwarnings("ignore")
import numpy as np, pandas as pd, time, copy
import pandapipes as pp
pd.set_option("display.width",250); pd.set_option("display.max_columns",50)
# 2. outer diameter mutation
net = pp.create_empty_network(fluid="water")
j = pp.create_junctions(net, 3, 5, 300)
pp.create_ext_grid(net, j[0], 5, 300)
pp.create_sink(net, j[2], 1.0)
pp.create_pipe_from_parameters(net, j[0], j[1], 0.5, 80, k_mm=0.1)
pp.create_pipe_from_parameters(net, j[1], j[2], 0.5, 80, outer_diameter_mm=100, k_mm=0.1)
print(net.pipe[["inner_diameter_mm","outer_diameter_mm"]])
before = copy.deepcopy(net.pipe)
pp.pipeflow(net)
print(net.pipe[["inner_diameter_mm","outer_diameter_mm"]])
print("pipe table equal after pipeflow:", before.equals(net.pipe))

import warnings; warnings.filterwarnings("ignore")
import numpy as np, pandas as pd
import pandapipes as pp, pandapipes.topology as top
net = pp.create_empty_network(fluid="lgas")
j = pp.create_junctions(net, 4, 5, 300, index=[10,11,12,13])
pp.create_ext_grid(net, 10, 5, 300)
pp.create_pipe_from_parameters(net, 10, 11, 0.5, 80, index=7)
pp.create_pipe_from_parameters(net, 11, 12, 0.5, 80, index=11)
pp.create_valve(net, 11, 11, "pi", 80., opened=True)   # valve at junction 11 on pipe 11
pp.create_valve(net, 10, 7, "pi", 80., opened=True)   # valve at junction 10 on pipe 7
pp.create_sink(net, 12, 0.1)
mg = top.create_nxgraph(net)
print("nodes", sorted(mg.nodes()), "edges", list(mg.edges(keys=True)))
pp.pipeflow(net)
print(net.res_junction)
print(net.res_valve[["p_from_bar","p_to_bar","mdot_from_kg_per_s"]])
print("unsupplied", top.unsupplied_junctions(net))
# reindex junctions
import copy
n2 = copy.deepcopy(net)
try:
    pp.reindex_junctions(n2, {10:0, 11:1, 12:2, 13:3}); print(n2.valve)
except Exception as e: print("reindex err", type(e), e)

import warnings; warnings.filterwarnings("ignore")
import numpy as np, pandas as pd, logging, collections, time
logging.disable(logging.CRITICAL)
import pandapipes as pp
exec(open("e25.py").read().split("stats = collections.Counter()")[0])
BR = {"pipe":("from_junction","to_junction"),"heat_consumer":("from_junction","to_junction"),"heat_exchanger":("from_junction","to_junction"),"flow_control":("from_junction","to_junction"),"circ_pump_pressure":("return_junction","flow_junction")}
rng = np.random.default_rng(7)
rel=[]; absK=[]; massw=[]
for it in range(400):
    net, feeder = gen(rng)
    if feeder == "cpm": continue
    mode = rng.choice(["sequential","bidirectional"])
    try: pp.pipeflow(net, mode=mode, iter=60, tol_T=1e-8, tol_res=1e-6, tol_p=1e-10, tol_m=1e-10, use_numba=bool(rng.random()<0.5))
    except Exception: continue
    cp = net.fluid.get_heat_capacity
    inflow = collections.defaultdict(list); bad=set()
    for tbl,(fc,tc) in BR.items():
        if tbl not in net or not len(net[tbl]): continue
        for e, r in zip(net[tbl].itertuples(), net["res_"+tbl].itertuples()):
            m = r.mdot_from_kg_per_s
            if np.isnan(m) or abs(m) < 1e-9: continue
            dst = getattr(e, tc) if m > 0 else getattr(e, fc)
            if tbl=="pipe" and e.sections>1 and m<0: bad.add(dst)
            inflow[dst].append((abs(m), r.t_outlet_k))
    fixedT = set(net.ext_grid.junction[net.ext_grid.type.isin(["t","pt"])]) 
    for jn, lst in inflow.items():
        if jn in bad or jn in fixedT or len(lst)<2: continue
        tm = net.res_junction.t_k[jn]
        if max(t for _,t in lst)-min(t for _,t in lst) < 1: continue
        from scipy.optimize import brentq
        te = brentq(lambda T: sum(m*(cp(t)+cp(T))/2*(t-T) for m,t in lst), 150, 500)
        tw = sum(m*t for m,t in lst)/sum(m for m,_ in lst)
        absK.append(tm-te); massw.append(tm-tw)
absK=np.array(absK); massw=np.array(massw)
print(len(absK), "max |T - T_energy|", np.abs(absK).max(), "median", np.median(np.abs(absK)), "max |T - T_massweighted|", np.abs(massw).max())

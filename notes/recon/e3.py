import warnings; warnings.filterwarnings("ignore")
import numpy as np, pandas as pd, time, copy
import pandapipes as pp
pd.set_option("display.width",250); pd.set_option("display.max_columns",50)
# 3. pump at elevated temperature
for T in (283.15, 360.0):
    net = pp.create_empty_network(fluid="water")
    j = pp.create_junctions(net, 3, 5, T)
    pp.create_ext_grid(net, j[0], 5, T)
    pp.create_sink(net, j[2], 6.0)
    pp.create_pump(net, j[0], j[1], std_type="P1")
    pp.create_pipe_from_parameters(net, j[1], j[2], 0.5, 80, k_mm=0.1)
    pp.pipeflow(net)
    r = net.res_pump.iloc[0]
    pt = net.std_types["pump"]["P1"]
    vd = r.vdot_m3_per_s
    print(T, "deltap", r.deltap_bar, "vdot", vd, "curve(vdot)", pt.get_pressure(vd), "curve(mdot/rhoN)", pt.get_pressure(r.mdot_from_kg_per_s/net.fluid.get_density(273.15)),
          "p_to-p_from", r.p_to_bar-r.p_from_bar)

import warnings; warnings.filterwarnings("ignore")
import numpy as np, pandas as pd, time, logging
logging.disable(logging.CRITICAL)
import pandapipes as pp
exec(open("e12.py").read().split("stats = dict")[0])
rng = np.random.default_rng(2)
G=9.81; PN=1.01325; TN=273.15
def pamb(h): return PN*(1-h*0.0065/288.15)**5.255
def lam(model, re, k, d, gas):
    if model=="nikuradse":
        nik = 1/(2*np.log10(d/k)+1.14)**2 if gas else 1/(-2*np.log10(k/(3.71*d)))**2
        return 64/re + nik
    if model=="swamee-jain": return 0.25/np.log10(k/(3.7*d)+5.74/re**0.9)**2
    # colebrook: solve
    from scipy.optimize import brentq
    f=lambda l: 1/np.sqrt(l)+2*np.log10(2.51/(re*np.sqrt(l))+k/(3.71*d))
    return brentq(f, 1e-6, 10)
worst={}
for it in range(200):
    fluid = rng.choice(["water", "lgas", "hydrogen"])
    net = gen(fluid, int(rng.integers(2, 8)), int(rng.integers(0, 3)), rng)
    net.pipe.sections = 1
    model = rng.choice(["nikuradse","colebrook","swamee-jain"])
    try: pp.pipeflow(net, friction_model=model, iter=100, tol_p=1e-11, tol_m=1e-11, tol_res=1e-10, tolerance_colebrook=1e-13, max_iter_colebrook=100)
    except Exception as e: continue
    fl = net.fluid; gas = fl.is_gas
    for p, r in zip(net.pipe.itertuples(), net.res_pipe.itertuples()):
        hf, ht = net.junction.height_m[p.from_junction], net.junction.height_m[p.to_junction]
        tf, tt = net.junction.tfluid_k[p.from_junction], net.junction.tfluid_k[p.to_junction]
        pf, pt = r.p_from_bar + pamb(hf), r.p_to_bar + pamb(ht)
        m = r.mdot_from_kg_per_s; d = p.inner_diameter_mm/1e3; A = np.pi*d*d/4; L=p.length_km*1e3; k=p.k_mm/1e3
        if abs(m) < 1e-9: continue
        tm = (tf+tt)/2
        if gas:
            pm = pf if pf==pt else 2/3*(pf**3-pt**3)/(pf**2-pt**2)
            eta = fl.get_viscosity(tm); re = abs(m)*d/(eta*A)
            l = lam(model, re, k, d, True)
            rhon = fl.get_density(TN); K = fl.get_compressibility(pm)
            rho = (rhon*TN*pf/(tf*PN*fl.get_compressibility(pf)) + rhon*TN*pt/(tt*PN*fl.get_compressibility(pt)))/2
            res = pf-pt + rho*G*(hf-ht)/1e5 - PN/(TN*1e5*rhon*A**2)*K*m*abs(m)*(l*L/d+p.loss_coefficient)/(pf+pt)*tm
        else:
            rho = (fl.get_density(tf)+fl.get_density(tt))/2
            eta = fl.get_viscosity(tm); re = abs(m)*d/(eta*A)
            l = lam(model, re, k, d, False)
            res = pf-pt + rho*G*(hf-ht)/1e5 - (l*L/d+p.loss_coefficient)*m*abs(m)/(2*rho*A*A*1e5)
        key=(fluid if fluid=="water" else "gas", model)
        worst[key]=max(worst.get(key,0), abs(res), )
        worst[key+("lam",)]=max(worst.get(key+("lam",),0), abs(l-r._12 if False else l-getattr(r,"_"+str(list(net.res_pipe.columns).index("lambda")+1), np.nan)) if False else abs(l-net.res_pipe.at[r.Index,"lambda"])/l)
        worst[key+("re",)]=max(worst.get(key+("re",),0), abs(re-r.reynolds)/re)
for k,v in sorted(worst.items()): print(k, v)

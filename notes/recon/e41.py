import warnings; warnings.filterwarnings("ignore")
import numpy as np, pandas as pd, logging
logging.disable(logging.CRITICAL)
import pandapipes as pp
pd.set_option("display.width",250); pd.set_option("display.max_columns",50)
def pamb(h): return 1.01325*(1-h*0.0065/288.15)**5.255
net = pp.create_empty_network(fluid="lgas")
j = pp.create_junctions(net, 8, 5.0, 293.15, height_m=[0,0,0,50,50,0,0,20])
pp.create_ext_grid(net, 0, 5.0, 293.15); pp.create_ext_grid(net, 0, 5.4, 293.15); pp.create_ext_grid(net, 0, 7.0, 293.15, in_service=False)
pp.create_pipes_from_parameters(net, [0,1,3,4,5,6], [1,2,4,5,6,7], 0.5, 100., k_mm=0.1)
pp.create_compressor(net, 2, 3, 1.5)            # height difference 0 -> 50
pp.create_pressure_control(net, 1, 5, 6, 3.3)   # remote controlled junction 6, parallel path
pp.create_flow_control(net, 2, 6, 0.05)
pp.create_sinks(net, [7,4,7], [0.1,0.05,0.02], scaling=[1.0,2.0,0.5], in_service=[True,True,False])
pp.create_source(net, 5, 0.01); pp.create_mass_storage(net, 6, 0.01, scaling=3.)
pp.pipeflow(net, iter=100, tol_p=1e-11, tol_m=1e-11, tol_res=1e-10)
print("p0", net.res_junction.p_bar[0], "expected mean", (5.0+5.4)/2, "ext grid results", net.res_ext_grid.mdot_kg_per_s.values)
print("PC junction 6", net.res_junction.p_bar[6], "FC", net.res_flow_control.mdot_from_kg_per_s.values)
c = net.res_compressor.iloc[0]; pf = c.p_from_bar+pamb(0); pt = c.p_to_bar+pamb(50)
print("compressor ratio abs", pt/pf, "deltap", c.deltap_bar, "pf*(r-1)", pf*0.5, "mdot", c.mdot_from_kg_per_s)
rho_n = net.fluid.get_density(273.15)
print(net.res_compressor.T)
print("sinks", net.res_sink.mdot_kg_per_s.values, "src", net.res_source.mdot_kg_per_s.values, "stor", net.res_mass_storage.mdot_kg_per_s.values)

import warnings; warnings.filterwarnings("ignore")
import numpy as np, pandas as pd, logging, collections, time
logging.disable(logging.CRITICAL)
import pandapipes as pp
rng = np.random.default_rng(3)
def gen(rng):
    net = pp.create_empty_network(fluid="water")
    n = int(rng.integers(2, 7))   # supply junctions 0..n-1, return junctions n..2n-1
    T0 = rng.uniform(290, 340)
    pp.create_junctions(net, 2*n, 5, T0)
    par = [int(rng.integers(0, i)) for i in range(1, n)]
    for i, p in enumerate(par, start=1):
        kw = dict(k_mm=0.1, u_w_per_m2k=float(rng.choice([0, 2, 10])), text_k=float(rng.uniform(265, 295)), sections=int(rng.choice([1,1,3])), outer_diameter_mm=float(rng.choice([np.nan, 100])))
        L = float(rng.uniform(0.05, 1.0)); d = float(rng.choice([50, 80]))
        a, b = (p, i) if rng.random() < 0.7 else (i, p)
        pp.create_pipe_from_parameters(net, a, b, L, d, **kw)
        a, b = (n+i, n+p) if rng.random() < 0.7 else (n+p, n+i)
        pp.create_pipe_from_parameters(net, a, b, L, d, **kw)
    feeder = rng.choice(["cpp", "cpm", "eg"])
    Tf = float(rng.uniform(340, 390))
    if feeder == "cpp": pp.create_circ_pump_const_pressure(net, n, 0, 6, float(rng.uniform(0.5, 3)), Tf, type="pt")
    leaves = [i for i in range(n) if i not in par] or [0]
    cons = set(leaves) | set(int(x) for x in rng.choice(n, int(rng.integers(0, n)), replace=False))
    if n == 1: cons = {0}
    tot = 0
    for c in sorted(cons):
        if c == 0 and n > 1 and rng.random() < 0.7: continue
        mode = rng.choice(["mf_q","mf_dt","mf_tr","q_dt","q_tr","hex"])
        m = float(rng.uniform(0.05, 0.6)); q = float(rng.uniform(2e3, 4e4)); tot += m
        if mode == "mf_q": pp.create_heat_consumer(net, c, n+c, controlled_mdot_kg_per_s=m, qext_w=q)
        elif mode == "mf_dt": pp.create_heat_consumer(net, c, n+c, controlled_mdot_kg_per_s=m, deltat_k=float(rng.uniform(5, 30)))
        elif mode == "mf_tr": pp.create_heat_consumer(net, c, n+c, controlled_mdot_kg_per_s=m, treturn_k=float(rng.uniform(300, 330)))
        elif mode == "q_dt": pp.create_heat_consumer(net, c, n+c, qext_w=q, deltat_k=float(rng.uniform(5, 30)))
        elif mode == "q_tr": pp.create_heat_consumer(net, c, n+c, qext_w=q, treturn_k=float(rng.uniform(300, 330)))
        else:
            jm = pp.create_junction(net, 5, T0)
            pp.create_flow_control(net, c, jm, m); pp.create_heat_exchanger(net, jm, n+c, q, 50.)
    if feeder == "cpm": pp.create_circ_pump_const_mass_flow(net, n, 0, 6, max(tot,0.05), Tf, type="pt")
    if feeder == "eg":
        pp.create_ext_grid(net, 0, 6, Tf, type="pt"); pp.create_ext_grid(net, n, 3, T0, type="p")
    return net, feeder
stats = collections.Counter(); t0=time.time()
for it in range(300):
    net, feeder = gen(rng)
    mode = rng.choice(["sequential","bidirectional"])
    try:
        pp.pipeflow(net, mode=mode, iter=60, tol_T=1e-8, tol_res=1e-6, tol_p=1e-10, tol_m=1e-10, use_numba=bool(rng.random()<0.5))
        stats[(feeder, mode, "ok")] += 1
        lo = min(net.pipe.text_k.min(), 293.15, net.junction.tfluid_k.min()) ; 
    except Exception as e:
        stats[(feeder, mode, type(e).__name__ + ":" + str(e)[:45])] += 1
for k, v in sorted(stats.items(), key=str): print(k, v)
print("time", time.time()-t0)

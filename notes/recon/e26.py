import warnings; warnings.filterwarnings("ignore")
import numpy as np, pandas as pd, logging, collections, time
logging.disable(logging.CRITICAL)
import pandapipes as pp
exec(open("e25.py").read().split("stats = collections.Counter()")[0])
rng = np.random.default_rng(4)
worst = collections.defaultdict(float); cnt = collections.Counter()
BR = {"pipe":("from_junction","to_junction"),"heat_consumer":("from_junction","to_junction"),"heat_exchanger":("from_junction","to_junction"),"flow_control":("from_junction","to_junction"),"circ_pump_pressure":("return_junction","flow_junction"),"circ_pump_mass":("return_junction","flow_junction")}
for it in range(250):
    net, feeder = gen(rng)
    if feeder == "cpm": continue
    mode = rng.choice(["sequential","bidirectional"])
    try: pp.pipeflow(net, mode=mode, iter=60, tol_T=1e-8, tol_res=1e-6, tol_p=1e-10, tol_m=1e-10, use_numba=bool(rng.random()<0.5))
    except Exception: continue
    f = net.fluid; cp = f.get_heat_capacity
    # cooling law, single-section pipes
    for p, r in zip(net.pipe.itertuples(), net.res_pipe.itertuples()):
        if p.sections != 1 or abs(r.mdot_from_kg_per_s) < 1e-8: continue
        tin = r.t_from_k if r.mdot_from_kg_per_s > 0 else r.t_to_k
        do = p.inner_diameter_mm if np.isnan(p.outer_diameter_mm) else p.outer_diameter_mm
        c = (cp(tin)+cp(r.t_outlet_k))/2
        law = p.text_k + (tin-p.text_k)*np.exp(-p.u_w_per_m2k*np.pi*do/1e3*p.length_km*1e3/(c*abs(r.mdot_from_kg_per_s)))
        worst["cool"] = max(worst["cool"], abs(law-r.t_outlet_k)); cnt["cool"+("_rev" if r.mdot_from_kg_per_s<0 else "")] += 1
    # mixing
    inflow = collections.defaultdict(list)
    for tbl,(fc,tc) in BR.items():
        if tbl not in net or not len(net[tbl]): continue
        for e, r in zip(net[tbl].itertuples(), net["res_"+tbl].itertuples()):
            m = r.mdot_from_kg_per_s
            if np.isnan(m) or abs(m) < 1e-9: continue
            dst = getattr(e, tc) if m > 0 else getattr(e, fc)
            inflow[dst].append((abs(m), r.t_outlet_k))
    for jn, lst in inflow.items():
        tm = net.res_junction.t_k[jn]
        res = sum(m*(cp(t)+cp(tm))/2*(t-tm) for m,t in lst); sc = sum(m*(cp(t)+cp(tm))/2*max(abs(t-tm),1e-9) for m,t in lst)
        key = "mix%d"%min(len(lst),3)
        if len(lst) >= 2 and max(t for _,t in lst)-min(t for _,t in lst) > 1: worst[key] = max(worst[key], abs(res)/sc); cnt[key]+=1
        elif len(lst)==1: worst["mix1_abs"] = max(worst["mix1_abs"], abs(lst[0][1]-tm)); cnt["mix1"]+=1
    # duties
    for tbl in ("heat_consumer","heat_exchanger"):
        if not len(net[tbl]): continue
        for e, r in zip(net[tbl].itertuples(), net["res_"+tbl].itertuples()):
            q = r.mdot_from_kg_per_s*(cp(r.t_from_k)+cp(r.t_outlet_k))/2*(r.t_from_k-r.t_outlet_k)
            qrep = r.qext_w if tbl=="heat_consumer" else e.qext_w
            worst["duty_"+tbl] = max(worst["duty_"+tbl], abs(q-qrep)); cnt["duty_"+tbl]+=1
            if tbl=="heat_consumer":
                presc_m = not np.isnan(e.controlled_mdot_kg_per_s)
                if presc_m or mode=="bidirectional":
                    if not np.isnan(e.qext_w): worst["set_q"] = max(worst["set_q"], abs(r.qext_w-e.qext_w))
                    if not np.isnan(e.deltat_k): worst["set_dt"] = max(worst["set_dt"], abs(r.deltat_k-e.deltat_k))
                    if not np.isnan(e.treturn_k): worst["set_tr"] = max(worst["set_tr"], abs(r.t_outlet_k-e.treturn_k)); 
                    if presc_m: worst["set_m"] = max(worst["set_m"], abs(r.mdot_from_kg_per_s-e.controlled_mdot_kg_per_s))
    # max principle
    lo = min(net.pipe.text_k.min(), 293.15); hi = max(net.res_junction.t_k[0], 0)
    feedT = net.circ_pump_pressure.t_flow_k.max() if len(net.circ_pump_pressure) else net.ext_grid.t_k.max()
    worst["above_feed"] = max(worst["above_feed"], net.res_junction.t_k.max()-feedT)
for k,v in sorted(worst.items()): print(k, v)
print(cnt)

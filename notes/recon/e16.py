import warnings; warnings.filterwarnings("ignore")
import numpy as np, pandas as pd, logging
logging.disable(logging.CRITICAL)
import pandapipes as pp
pd.set_option("display.width",250); pd.set_option("display.max_columns",50)
def mk(T0, p0):
    net = pp.create_empty_network(fluid="water")
    j = pp.create_junctions(net, 6, p0, T0)
    pp.create_circ_pump_const_pressure(net, j[5], j[0], 6, 2, 360, type="pt")
    pp.create_pipes_from_parameters(net, [0,1,3,4], [1,2,4,5], [0.3,0.5,0.5,0.3], 80, k_mm=0.1, u_w_per_m2k=4, text_k=283, sections=2)
    pp.create_heat_consumer(net, 1, 4, qext_w=30000, deltat_k=25)
    pp.create_heat_consumer(net, 2, 3, qext_w=20000, treturn_k=320)
    return net
for mode in ("sequential","bidirectional"):
    outs=[]
    for T0,p0 in ((300,5),(350,2),(285,9)):
        net = mk(T0,p0)
        try:
            pp.pipeflow(net, mode=mode, iter=100); outs.append(np.r_[net.res_junction.p_bar.values, net.res_junction.t_k.values, net.res_heat_consumer.mdot_from_kg_per_s.values])
            print(mode, T0, p0, "iters", {k:v for k,v in net._internal_results.items() if k.startswith("iter")})
        except Exception as e: print(mode, T0,p0,"FAIL",e)
    for o in outs[1:]: print("  maxdiff", np.abs(o-outs[0]).max())
    print(net.res_heat_consumer[["mdot_from_kg_per_s","qext_w","deltat_k","t_from_k","t_outlet_k"]])

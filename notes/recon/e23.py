import warnings; warnings.filterwarnings("ignore")
import numpy as np, pandas as pd, logging, collections
logging.disable(logging.CRITICAL)
import pandapipes as pp, pandapipes.topology as top, networkx as nx
rng = np.random.default_rng(11)
def gen(rng):
    net = pp.create_empty_network(fluid="lgas")
    n = int(rng.integers(3, 10))
    pp.create_junctions(net, n, 1.0, 293.15, in_service=list(rng.random(n) > 0.1))
    edges = [(int(rng.integers(0, i)), i) for i in range(1, n)] + [tuple(int(x) for x in rng.choice(n, 2, replace=False)) for _ in range(int(rng.integers(0, 4)))]
    for a, b in edges:
        if rng.random() < 0.5: a, b = b, a
        kind = rng.choice(["pipe","pipe","pipe","valve","fc","pc"])
        ins = bool(rng.random() > 0.2)
        if kind == "pipe": pp.create_pipe_from_parameters(net, a, b, 0.1, 80, k_mm=0.1, in_service=ins, sections=int(rng.choice([1,3])))
        elif kind == "valve": pp.create_valve(net, a, b, "ju", 80., opened=ins)
        elif kind == "fc": pp.create_flow_control(net, a, b, 0.001, control_active=bool(rng.random()<0.7), in_service=ins)
        elif kind == "pc": pp.create_pressure_control(net, a, b, b, 0.9, control_active=bool(rng.random()<0.7), in_service=ins, check_controllability=False)
    for jn in rng.choice(n, int(rng.integers(1, 3)), replace=False):
        pp.create_ext_grid(net, int(jn), 1.0, 293.15, in_service=bool(rng.random()>0.15))
    for jn in rng.choice(n, int(rng.integers(1, n)), replace=False):
        pp.create_sink(net, int(jn), 0.002)
    return net
def ref_supplied(net):
    adj = collections.defaultdict(list)
    for p in net.pipe.itertuples():
        if p.in_service: adj[p.from_junction].append(p.to_junction); adj[p.to_junction].append(p.from_junction)
    for v in net.valve.itertuples():
        if v.opened: adj[v.junction].append(v.element); adj[v.element].append(v.junction)
    for f in net.flow_control.itertuples():
        if f.in_service and not f.control_active: adj[f.from_junction].append(f.to_junction); adj[f.to_junction].append(f.from_junction)
    for c in net.press_control.itertuples():
        if c.in_service: adj[c.from_junction].append(c.to_junction)   # directed
    start = [e.junction for e in net.ext_grid.itertuples() if e.in_service and net.junction.in_service[e.junction]]
    seen = set(start); st = list(start)
    while st:
        x = st.pop()
        for y in adj[x]:
            if y not in seen: seen.add(y); st.append(y)
    return seen
stats = collections.Counter()
for it in range(400):
    net = gen(rng)
    sup = ref_supplied(net)
    try: pp.pipeflow(net, iter=30)
    except Exception as e:
        stats["exc:"+type(e).__name__+":"+str(e)[:40]] += 1
        if not sup: stats["none_supplied_ok"] += 1
        continue
    got = set(net.res_junction.index[net.res_junction.p_bar.notna()])
    if got == sup: stats["agree"] += 1
    else: stats["DISAGREE"] += 1; print("disagree", sorted(got), sorted(sup))
    # graph
    consistent = all(net.junction.in_service[p.from_junction] and net.junction.in_service[p.to_junction] for p in net.pipe.itertuples() if p.in_service)
    uj = top.unsupplied_junctions(net)
    exp = set(net.junction.index) - got - set(net.junction.index[~net.junction.in_service])
    if uj == exp: stats["graph_agree"] += 1
    else: stats["graph_disagree"+("" if consistent else "_inconsistentflags")] += 1
print(stats)

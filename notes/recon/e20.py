import warnings; warnings.filterwarnings("ignore")
import numpy as np, pandas as pd, logging, copy
logging.disable(logging.CRITICAL)
import pandapipes as pp, pandapipes.topology as top
from pandapipes.pandapipes_net import Sector
net = pp.create_empty_network(fluid="lgas")
pp.create_junctions(net, 3, 1, 293)
pp.create_pipes_from_parameters(net, [0,1],[1,2],0.1,50)
try:
    r = pp.create_pressure_control(net, 0, 1, 99, 0.5); print("pc with bad controlled junction, check on ->", r, len(net.press_control))
except Exception as e: print("ERR1", type(e).__name__)
r = pp.create_pressure_control(net, 0, 1, 2, 0.5) ; print("controllable ->", r)
net.pipe.loc[1,"in_service"]=False
r = pp.create_pressure_control(net, 0, 1, 2, 0.5) ; print("uncontrollable ->", r, len(net.press_control))
try:
    r = pp.create_pressure_control(net, 0, 1, 99, 0.5, check_controllability=False); print("check off ->", r, net.press_control.controlled_junction.values)
except Exception as e: print("ERR", type(e).__name__, e)
# sink with bad junction: net unchanged?
n2 = pp.create_empty_network(fluid="lgas", sector=Sector.HEAT); pp.create_junctions(n2, 2, 1, 293)
keys=set(n2.keys()); cl=list(n2.component_list)
try: pp.create_sink(n2, 7, 0.1)
except Exception as e: print("sink ERR", type(e).__name__, e)
print("new keys", set(n2.keys())-keys, "complist changed", cl!=n2.component_list)
# duplicate index
try: pp.create_junction(net, 1, 293, index=1)
except Exception as e: print("dup idx ERR", type(e).__name__, e)
# graph w/o valve table
n3 = pp.create_empty_network(fluid="lgas", sector=Sector.NONE); pp.create_junctions(n3,2,1,293); pp.create_pipe_from_parameters(n3,0,1,0.1,50); pp.create_ext_grid(n3,0,1,293)
try: print(top.create_nxgraph(n3).edges)
except Exception as e: print("graph ERR", type(e).__name__, e)
# create_valves with mixed et
n4 = pp.create_empty_network(fluid="lgas"); pp.create_junctions(n4,3,1,293); pp.create_pipe_from_parameters(n4,0,1,0.1,50)
try: print(pp.create_valves(n4, [1,1], [2,0], ["ju","pi"], 50.), n4.valve)
except Exception as e: print("valves ERR", type(e).__name__, e)
try: pp.create_valves(n4, [2], [0], "pi", 50.); print("valve at non-connected junction accepted", n4.valve)
except Exception as e: print("valves2 ERR", type(e).__name__, e)

import warnings; warnings.filterwarnings("ignore")
import numpy as np, pandas as pd, time, copy
import pandapipes as pp
pd.set_option("display.width",250); pd.set_option("display.max_columns",50)
net = pp.create_empty_network(fluid="water")
j = pp.create_junctions(net, 6, 5, 350)
pp.create_circ_pump_const_pressure(net, j[3], j[0], 5, 2, 350, type="pt")
pp.create_pipe_from_parameters(net, j[0], j[1], 0.5, 80, k_mm=0.1, u_w_per_m2k=5, text_k=280)
pp.create_heat_consumer(net, j[1], j[2], qext_w=20000, controlled_mdot_kg_per_s=0.5)
pp.create_heat_consumer(net, j[1], j[2], qext_w=20000, controlled_mdot_kg_per_s=0.5, in_service=False)
pp.create_pipe_from_parameters(net, j[2], j[3], 0.5, 80, k_mm=0.1, u_w_per_m2k=5, text_k=280)
pp.create_pressure_control(net, j[1], j[4], j[4], 3.0, in_service=False)
pp.create_heat_exchanger(net, j[1], j[2], qext_w=1000., inner_diameter_mm=80, in_service=False)
pp.create_flow_control(net, j[1], j[2], 0.3, in_service=False)
pp.pipeflow(net, mode="sequential")
for t in ["res_junction","res_circ_pump_pressure","res_heat_consumer","res_press_control","res_heat_exchanger","res_flow_control","res_pipe"]:
    print(t); print(net[t])

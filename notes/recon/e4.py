import warnings; warnings.filterwarnings("ignore")
import numpy as np, pandas as pd, time, copy
import pandapipes as pp
pd.set_option("display.width",250); pd.set_option("display.max_columns",50)
def build(pipe_idx, order=(0,1), sector="all", valve_first=False):
    from pandapipes.pandapipes_net import Sector
    net = pp.create_empty_network(fluid="water", sector=Sector(sector) if sector!="None" else Sector.NONE)
    j = pp.create_junctions(net, 4, 5, 350)
    pp.create_ext_grid(net, j[0], 5, 350, type="pt")
    pp.create_sink(net, j[2], 1.0)
    pp.create_sink(net, j[3], 0.5)
    if valve_first:
        pp.create_valve(net, j[2], j[3], "ju", 80.)
    specs = [dict(from_junction=j[0], to_junction=j[1], length_km=0.5, sections=2),
             dict(from_junction=j[1], to_junction=j[2], length_km=0.8, sections=3)]
    for o in order:
        pp.create_pipe_from_parameters(net, inner_diameter_mm=80, k_mm=0.1, u_w_per_m2k=5., text_k=280., index=pipe_idx[o], **specs[o])
    if not valve_first:
        pp.create_valve(net, j[2], j[3], "ju", 80.)
    pp.pipeflow(net, mode="sequential")
    return net
a = build([0,1]); print(a.res_pipe[["t_from_k","t_to_k","t_outlet_k","mdot_from_kg_per_s","lambda"]])
b = build([7,3]); print(b.res_pipe[["t_from_k","t_to_k","t_outlet_k","mdot_from_kg_per_s","lambda"]])
c = build([0,1], sector="None", valve_first=True); print([x.__name__ for x in c.component_list]); print(c.res_pipe[["t_from_k","t_to_k","t_outlet_k","mdot_from_kg_per_s","lambda"]]); print(c.res_valve)

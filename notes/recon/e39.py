import warnings; warnings.filterwarnings("ignore")
import numpy as np, pandas as pd, logging, collections, time, copy
logging.disable(logging.CRITICAL)
import pandapipes as pp
exec(open("e25.py").read().split("stats = collections.Counter()")[0])
rng = np.random.default_rng(9)
def results(n): return {t: n[t].values.copy() for t in n.keys() if t.startswith("res_")}
def same(a,b): return a.keys()==b.keys() and all(np.array_equal(a[k],b[k],equal_nan=True) for k in a)
def snapshot(n): return {k: (v.copy(deep=True) if isinstance(v,pd.DataFrame) else copy.deepcopy(v)) for k,v in n.items() if not k.startswith("_") and not k.startswith("res_") and k not in ("converged",)}
def snap_eq(a,b):
    bad=[]
    for k in a:
        if isinstance(a[k], pd.DataFrame):
            if not (a[k].equals(b[k]) and a[k].dtypes.equals(b[k].dtypes)): bad.append(k)
        elif k=="user_pf_options":
            if {x:y for x,y in a[k].items() if x!="hyd_flag"} != {x:y for x,y in b[k].items() if x!="hyd_flag"}: bad.append(k)
        elif k in ("fluid","std_types","component_list"): pass
        elif a[k]!=b[k]: bad.append(k)
    return bad
stats = collections.Counter()
for it in range(60):
    net, feeder = gen(rng)
    if feeder=="cpm": continue
    net.pipe["outer_diameter_mm"] = net.pipe.outer_diameter_mm.fillna(net.pipe.inner_diameter_mm)  # avoid known F-02
    base = copy.deepcopy(net); s0 = snapshot(net)
    hist = [dict(mode="hydraulics"), dict(mode="sequential", iter=50), dict(mode="sequential", iter=50, use_numba=False), dict(mode="bidirectional", iter=50), dict(mode="sequential", max_iter_hyd=1), dict(mode="sequential", iter=50, nonlinear_method="automatic"), dict(mode="hydraulics", friction_model="colebrook", iter=50)]
    order = rng.permutation(len(hist))
    for i in order:
        kw = hist[i]
        try: pp.pipeflow(net, **kw); ok=True
        except Exception as e: ok=False
        r1 = results(net)
        fresh = copy.deepcopy(base)
        try: pp.pipeflow(fresh, **kw); okf=True
        except Exception: okf=False
        if ok!=okf: stats["VERDICT_DIFF"]+=1; print("verdict diff", it, kw, ok, okf); continue
        if not same(r1, results(fresh)): stats["HISTORY_DEP"]+=1; print("history dependence", it, kw)
        else: stats["ok" if ok else "fail_ok"]+=1
        b = snap_eq(s0, snapshot(net))
        if b: stats["MUTATED"]+=1; print("mutated", it, kw, b); s0 = snapshot(net)
print(stats)

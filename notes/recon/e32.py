import warnings; warnings.filterwarnings("ignore")
import numpy as np, pandas as pd, logging, copy
logging.disable(logging.CRITICAL)
import pandapipes as pp
def snap(net): return {k: v.copy(deep=True) for k, v in net.items() if isinstance(v, pd.DataFrame)}
def changed(a, net):
    b = snap(net); out=[]
    for k in set(a)|set(b):
        if k not in a or k not in b or not a[k].equals(b[k]) or not a[k].dtypes.equals(b[k].dtypes): out.append(k)
    return out
def base():
    net = pp.create_empty_network(fluid="water"); pp.create_junctions(net, 3, 5, 300); pp.create_pipe_from_parameters(net, 0, 1, 0.1, 50); return net
tests = {
 "junction bad geodata": lambda n: pp.create_junction(n, 5, 300, geodata=(1,2,3)),
 "junctions bad geodata": lambda n: pp.create_junctions(n, 2, 5, 300, geodata=[(1,2,3),(1,2,3)]),
 "junctions wrong len": lambda n: pp.create_junctions(n, 2, [5,5,5], 300),
 "pipe bad junction": lambda n: pp.create_pipe_from_parameters(n, 0, 9, 0.1, 50),
 "pipes bad junction": lambda n: pp.create_pipes_from_parameters(n, [0,1], [1,9], 0.1, 50),
 "pipes dup index": lambda n: pp.create_pipes_from_parameters(n, [0,1], [1,2], 0.1, 50, index=[0,5]),
 "pipes wrong len": lambda n: pp.create_pipes_from_parameters(n, [0,1], [1,2], [0.1,0.2,0.3], 50),
 "pipe bad std": lambda n: pp.create_pipe(n, 0, 1, "nope", 0.1),
 "pipes geodata bad": lambda n: pp.create_pipes_from_parameters(n, [0,1], [1,2], 0.1, 50, geodata=[[(0,0),(1,1)]]),
 "sink bad": lambda n: pp.create_sink(n, 9, 0.1),
 "sinks bad": lambda n: pp.create_sinks(n, [0,9], 0.1),
 "ext_grid none": lambda n: pp.create_ext_grid(n, 0),
 "ext_grids bad type": lambda n: pp.create_ext_grids(n, [0,1], [5,None], [None,None]),
 "valve pi unknown pipe": lambda n: pp.create_valve(n, 0, 7, "pi", 50.),
 "valve pi not connected": lambda n: pp.create_valve(n, 2, 0, "pi", 50.),
 "valve bad et": lambda n: pp.create_valve(n, 0, 1, "xx", 50.),
 "pump bad std": lambda n: pp.create_pump(n, 0, 1, "P9"),
 "pump params dup name": lambda n: pp.create_pump_from_parameters(n, 0, 1, "P1", [6,5,3],[0,20,80],2),
 "pump params bad junction": lambda n: pp.create_pump_from_parameters(n, 0, 9, "newp", [6,5,3],[0,20,80],2),
 "hc three": lambda n: pp.create_heat_consumer(n, 0, 1, qext_w=1, controlled_mdot_kg_per_s=1, deltat_k=1),
 "hcs bad junction": lambda n: pp.create_heat_consumers(n, [0,1],[1,9], qext_w=1., controlled_mdot_kg_per_s=1.),
 "storage neg": lambda n: pp.create_mass_storage(n, 0, 0.1, init_m_stored_kg=-1),
 "in_service nan bulk": lambda n: pp.create_sinks(n, [0,1], 0.1, in_service=[True, np.nan]),
}
for name, f in tests.items():
    n = base(); a = snap(n); st = copy.deepcopy(n.std_types)
    try: r = f(n); res = "ACCEPTED -> %r" % (r,)
    except Exception as e: res = "raised %s" % type(e).__name__
    ch = changed(a, n)
    stch = set(n.std_types["pump"]) != set(st["pump"])
    print(f"{name:28s} {res:40s} changed tables: {ch} {'STD TYPES CHANGED' if stch else ''}")

import warnings; warnings.filterwarnings("ignore")
import numpy as np, pandas as pd, logging, collections, time
logging.disable(logging.CRITICAL)
import pandapipes as pp
pd.set_option("display.width",250); pd.set_option("display.max_columns",50)
exec(open("e25.py").read().split("stats = collections.Counter()")[0])
rng = np.random.default_rng(4)
shown=0
for it in range(250):
    net, feeder = gen(rng)
    if feeder == "cpm": continue
    mode = rng.choice(["sequential","bidirectional"])
    nb = bool(rng.random()<0.5)
    try: pp.pipeflow(net, mode=mode, iter=60, tol_T=1e-8, tol_res=1e-6, tol_p=1e-10, tol_m=1e-10, use_numba=nb)
    except Exception: continue
    cp = net.fluid.get_heat_capacity
    for e, r in zip(net.heat_consumer.itertuples(), net.res_heat_consumer.itertuples()):
        q = r.mdot_from_kg_per_s*(cp(r.t_from_k)+cp(r.t_outlet_k))/2*(r.t_from_k-r.t_outlet_k)
        if abs(q-r.qext_w) > 1 and shown < 4:
            shown += 1
            print("=== case", it, feeder, mode, "numba", nb)
            print(net.heat_consumer.drop(columns=["name","type"])); print(net.res_heat_consumer[["mdot_from_kg_per_s","t_from_k","t_to_k","t_outlet_k","qext_w","deltat_k"]]); print(net.res_junction.T)
            print(net._internal_results.get("iterations_heat"), net._internal_results.get("iterations_bidirectional"))
            break

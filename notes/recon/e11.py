import warnings; warnings.filterwarnings("ignore")
import numpy as np, pandas as pd, copy, tempfile, time, logging
logging.disable(logging.CRITICAL)
import pandapipes as pp
import pandapower.control as control
from pandapower.timeseries import OutputWriter, DFData
from pandapipes.timeseries import run_timeseries
def mk():
    net = pp.create_empty_network(fluid="lgas")
    j = pp.create_junctions(net, 4, 1.0, 293.15)
    pp.create_ext_grid(net, j[0], 1.0, 293.15)
    pp.create_pipes_from_parameters(net, [0,1,2,0], [1,2,3,3], 0.3, 50., k_mm=0.1)
    pp.create_sinks(net, [2,3], [0.01, 0.02])
    return net
net = mk()
prof = pd.DataFrame({"0":[0.01, 0.03, 50.0, 0.02, 0.0], "1":[0.02, 0.0, 0.01, 0.04, 0.03]})
control.ConstControl(net, element='sink', variable='mdot_kg_per_s', element_index=net.sink.index.values, data_source=DFData(prof), profile_name=["0","1"])
with tempfile.TemporaryDirectory() as d:
    ow = OutputWriter(net, time_steps=range(5), output_path=d, output_file_type=".csv", log_variables=[("res_junction","p_bar"),("res_pipe","mdot_from_kg_per_s"),("res_ext_grid","mdot_kg_per_s")])
    t=time.time()
    run_timeseries(net, time_steps=range(5), continue_on_divergence=True, verbose=False)
    print("ts time", time.time()-t)
    print(ow.np_results["res_junction.p_bar"])
    print(ow.output.keys() if hasattr(ow,"output") else None)
    print(ow.output.get("Parameters"))
for s in range(5):
    n = mk(); n.sink.mdot_kg_per_s = prof.iloc[s].values
    try: pp.pipeflow(n); print(s, n.res_junction.p_bar.values)
    except Exception as e: print(s, "fail", type(e).__name__)

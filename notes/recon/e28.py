import warnings; warnings.filterwarnings("ignore")
import numpy as np, pandas as pd, logging, collections, time
logging.disable(logging.CRITICAL)
import pandapipes as pp
pd.set_option("display.width",250); pd.set_option("display.max_columns",50)
exec(open("e25.py").read().split("stats = collections.Counter()")[0])
BR = {"pipe":("from_junction","to_junction"),"heat_consumer":("from_junction","to_junction"),"heat_exchanger":("from_junction","to_junction"),"flow_control":("from_junction","to_junction"),"circ_pump_pressure":("return_junction","flow_junction"),"circ_pump_mass":("return_junction","flow_junction")}
rng = np.random.default_rng(4)
shown=0
for it in range(250):
    net, feeder = gen(rng)
    if feeder == "cpm": continue
    mode = rng.choice(["sequential","bidirectional"])
    nb = bool(rng.random()<0.5)
    try: pp.pipeflow(net, mode=mode, iter=60, tol_T=1e-8, tol_res=1e-6, tol_p=1e-10, tol_m=1e-10, use_numba=nb)
    except Exception: continue
    cp = net.fluid.get_heat_capacity
    inflow = collections.defaultdict(list)
    for tbl,(fc,tc) in BR.items():
        if tbl not in net or not len(net[tbl]): continue
        for e, r in zip(net[tbl].itertuples(), net["res_"+tbl].itertuples()):
            m = r.mdot_from_kg_per_s
            if np.isnan(m) or abs(m) < 1e-9: continue
            dst = getattr(e, tc) if m > 0 else getattr(e, fc)
            inflow[dst].append((abs(m), r.t_outlet_k, tbl, r.Index))
    for jn, lst in inflow.items():
        tm = net.res_junction.t_k[jn]
        res = sum(m*(cp(t)+cp(tm))/2*(t-tm) for m,t,_,_ in lst); sc = sum(m*(cp(t)+cp(tm))/2*max(abs(t-tm),1e-9) for m,t,_,_ in lst)
        if abs(res)/sc > 1e-2 and shown < 4:
            shown += 1
            print("=== case", it, feeder, mode, "numba", nb, "junction", jn, "t_k", tm, "inflows", lst)
            print(net.pipe[["from_junction","to_junction","sections","u_w_per_m2k","text_k"]].join(net.res_pipe[["mdot_from_kg_per_s","t_from_k","t_to_k","t_outlet_k"]]))
            print(net.res_junction.T); print(net.ext_grid)

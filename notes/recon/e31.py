import warnings; warnings.filterwarnings("ignore")
import numpy as np, pandas as pd, logging, time
logging.disable(logging.CRITICAL)
import pandapipes as pp
def mk(jidx, pidx, sidx):
    net = pp.create_empty_network(fluid="lgas")
    pp.create_junctions(net, 4, 1.0, 293.15, index=jidx)
    pp.create_ext_grid(net, jidx[0], 1.0, 293.15)
    pp.create_pipes_from_parameters(net, [jidx[0],jidx[1],jidx[2],jidx[0]], [jidx[1],jidx[2],jidx[3],jidx[3]], 0.3, 50., k_mm=0.1, index=pidx, sections=[1,3,2,1])
    pp.create_sinks(net, [jidx[2],jidx[3],jidx[3]], [0.01, 0.02, 0.005], index=sidx)
    return net
base = mk([0,1,2,3],[0,1,2,3],[0,1,2]); pp.pipeflow(base)
for jidx,pidx,sidx in (([5,200000,7,3000000],[300000,2,150000,7],[100001,5,2500000]), ([3,2,1,0],[3,2,1,0],[2,1,0])):
    for nb in (True, False):
        t=time.time(); net = mk(jidx,pidx,sidx); pp.pipeflow(net, use_numba=nb)
        print(nb, "p diff", np.abs(net.res_junction.p_bar.values-base.res_junction.p_bar.values).max(), "mdot diff", np.abs(net.res_pipe.mdot_from_kg_per_s.values-base.res_pipe.mdot_from_kg_per_s.values).max(), "lambda diff", np.abs(net.res_pipe["lambda"].values-base.res_pipe["lambda"].values).max(), "sink", net.res_sink.mdot_kg_per_s.values, "t", round(time.time()-t,2))

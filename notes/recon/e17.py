import warnings; warnings.filterwarnings("ignore")
import numpy as np, pandas as pd, logging
logging.disable(logging.CRITICAL)
import pandapipes as pp
pd.set_option("display.width",250); pd.set_option("display.max_columns",50)
def mk(T0, p0, kinds):
    net = pp.create_empty_network(fluid="water")
    j = pp.create_junctions(net, 6, p0, T0)
    pp.create_circ_pump_const_pressure(net, j[5], j[0], 6, 2, 360, type="pt")
    pp.create_pipes_from_parameters(net, [0,1,3,4], [1,2,4,5], [0.3,0.5,0.5,0.3], 80, k_mm=0.1, u_w_per_m2k=4, text_k=283, sections=2)
    for (a,b),k in zip(((1,4),(2,3)),kinds):
        pp.create_heat_consumer(net, a, b, **k)
    return net
combos = {"mf_q":dict(controlled_mdot_kg_per_s=0.4,qext_w=30000),"mf_dt":dict(controlled_mdot_kg_per_s=0.4,deltat_k=20),"mf_tr":dict(controlled_mdot_kg_per_s=0.4,treturn_k=330),
          "q_dt":dict(qext_w=30000,deltat_k=20),"q_tr":dict(qext_w=30000,treturn_k=330)}
for a in combos:
  for b in combos:
    out=[]
    for T0,p0 in ((300,5),(355,2)):
        for mode in ("sequential","bidirectional"):
            net = mk(T0,p0,(combos[a],combos[b]))
            try:
                pp.pipeflow(net, mode=mode, iter=100); out.append("ok")
            except Exception as e: out.append("F")
    print(a,b,out)

import warnings; warnings.filterwarnings("ignore")
import numpy as np, pandas as pd
import pandapipes as pp
pd.set_option("display.width",250); pd.set_option("display.max_columns",50)
net = pp.create_empty_network(fluid="water")
j = pp.create_junctions(net, 3, 5, 320)
pp.create_ext_grid(net, 0, 5, 330, type="pt")
pp.create_pipe(net, 0, 1, "80_GGG", 0.3)
pp.create_pipes(net, [1], [2], "80_GGG", 0.3)
pp.create_sink(net, 2, 1.0)
print(net.pipe)
print(pd.DataFrame(net.std_types["pipe"]).T.head(3))
try:
    pp.pipeflow(net, mode="sequential"); print(net.res_junction)
except Exception as e: print("ERR", e)

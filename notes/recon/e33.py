import warnings; warnings.filterwarnings("ignore")
import numpy as np, pandas as pd, logging, copy
logging.disable(logging.CRITICAL)
import pandapipes as pp
pd.set_option("display.width",250); pd.set_option("display.max_columns",50)
def mk():
    net = pp.create_empty_network(fluid="lgas")
    pp.create_junctions(net, 7, 1.0, 293.15, index=[3,1,7,9,20,4,5], geodata=[(i,i) for i in range(7)])
    pp.create_ext_grid(net, 3, 1.0, 293.15)
    pp.create_pipes_from_parameters(net, [3,1,7,3], [1,7,9,9], 0.3, 50., k_mm=0.1, index=[7,1,9,3], sections=[1,2,1,3], geodata=[[(0,0),(1,1)]]*4)
    pp.create_pressure_control(net, 9, 20, 20, 0.7, index=4)
    pp.create_valve(net, 20, 4, "ju", 50., index=2)
    pp.create_flow_control(net, 1, 9, 0.001, index=9)
    pp.create_compressor(net, 4, 5, 1.2)
    pp.create_sinks(net, [7,9,20,5], [0.01, 0.02, 0.005, 0.004], index=[5,3,1,0])
    pp.create_source(net, 1, 0.003, index=7)
    return net
def refs_ok(net):
    from pandapipes.toolbox import element_junction_tuples
    bad=[]
    for t,c in element_junction_tuples(net=net):
        if t in net and len(net[t]):
            if t=="valve" and c=="element": continue
            m = ~net[t][c].isin(net.junction.index)
            if m.any(): bad.append((t,c,net[t][c][m].tolist()))
    return bad
net = mk(); pp.pipeflow(net); r0 = copy.deepcopy(net)
# reindex junctions
lk = {3:100, 1:3, 7:1, 9:0, 20:2, 4:50, 5:7}
n = mk(); pp.reindex_junctions(n, dict(lk)); print("refs", refs_ok(n)); pp.pipeflow(n)
print("reindex junction p diff", np.abs(n.res_junction.p_bar.loc[[lk[j] for j in r0.junction.index]].values - r0.res_junction.p_bar.values).max(), "pipe mdot diff", np.abs(n.res_pipe.mdot_from_kg_per_s.values-r0.res_pipe.mdot_from_kg_per_s.values).max(), "geodata idx", sorted(n.junction_geodata.index)==sorted(n.junction.index))
# reindex pipes
n = mk(); pp.reindex_pipes(n, {7:0,1:1,9:2,3:30}); pp.pipeflow(n); print("reindex pipes ok", np.abs(n.res_pipe.mdot_from_kg_per_s.values-r0.res_pipe.mdot_from_kg_per_s.values).max(), sorted(n.pipe_geodata.index)==sorted(n.pipe.index))
# continuous
n = mk(); lks = pp.create_continuous_elements_index(n); print("cont refs", refs_ok(n)); pp.pipeflow(n); print("cont p", np.sort(n.res_junction.p_bar.values) - np.sort(r0.res_junction.p_bar.values))
# drop junctions
n = mk(); pp.drop_junctions(n, [20]); print("drop refs", refs_ok(n), {t: len(n[t]) for t in ("pipe","press_control","valve","sink","flow_control","compressor")})
# fuse
n = mk(); pp.fuse_junctions(n, 9, [20]); print("fuse refs", refs_ok(n)); print(n.press_control[["from_junction","to_junction","controlled_junction"]])
# select subnet
n = mk(); pp.pipeflow(n); sub = pp.select_subnet(n, [3,1,7,9], include_results=True); print("subnet refs", refs_ok(sub), {t: len(sub[t]) for t in ("pipe","press_control","valve","sink","flow_control","ext_grid","source")})
try:
    pp.pipeflow(sub); print("subnet p", sub.res_junction.p_bar.values, r0.res_junction.p_bar.loc[[3,1,7,9]].values)
except Exception as e: print("subnet pipeflow ERR", type(e).__name__, e)

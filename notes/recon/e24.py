import warnings; warnings.filterwarnings("ignore")
import numpy as np, pandas as pd, logging, collections, traceback
logging.disable(logging.CRITICAL)
import pandapipes as pp
exec(open("e23.py").read().split("def ref_supplied")[0].split("rng = np.random.default_rng(11)")[1])
rng = np.random.default_rng(11)
for it in range(400):
    net = gen(rng)
    try: pp.pipeflow(net, iter=30)
    except ValueError as e:
        traceback.print_exc()
        pd.set_option("display.width",250)
        for t in ("junction","pipe","valve","flow_control","press_control","ext_grid","sink"): print(t); print(net[t].drop(columns=[c for c in ("name","type","std_type") if c in net[t]]))
        break
    except Exception: pass

import warnings; warnings.filterwarnings("ignore")
import numpy as np, pandas as pd, logging, collections, time
logging.disable(logging.CRITICAL)
import pandapipes as pp
from pandapipes.component_models import Pipe
pd.set_option("display.width",250); pd.set_option("display.max_columns",50)
# minimal: reverse-flow 3-section pipe
for decl in ("fwd","rev"):
    net = pp.create_empty_network(fluid="water")
    pp.create_junctions(net, 2, 5, 300)
    pp.create_ext_grid(net, 0, 5, 360, type="pt"); pp.create_sink(net, 1, 0.5)
    a,b = (0,1) if decl=="fwd" else (1,0)
    pp.create_pipe_from_parameters(net, a, b, 1.0, 80, k_mm=0.1, u_w_per_m2k=10, text_k=280, sections=3)
    pp.pipeflow(net, mode="sequential")
    print(decl, net.res_pipe[["mdot_from_kg_per_s","t_from_k","t_to_k","t_outlet_k"]].values, "junction T", net.res_junction.t_k.values)
    print("   internal T", Pipe.get_internal_results(net, np.array([0]))["TINIT"][:,1])

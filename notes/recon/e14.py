import warnings; warnings.filterwarnings("ignore")
import numpy as np
from pandapipes.pf import derivative_toolbox as T, derivative_toolbox_numba as N
from pandapipes.idx_branch import *
from pandapipes.idx_node import node_cols, TINIT as TN_, HEIGHT, PINIT, PAMB
rng = np.random.default_rng(0)
def mk(n, nn):
    b = np.zeros((n, branch_cols)); nd = np.zeros((nn, node_cols))
    b[:, FROM_NODE] = rng.integers(0, nn, n); b[:, TO_NODE] = rng.integers(0, nn, n)
    b[:, LENGTH] = rng.choice([0, 1e-9, 1, 100, 5000], n); b[:, D] = rng.uniform(0.02, 1, n); b[:, AREA] = b[:, D]**2*np.pi/4
    b[:, K] = rng.uniform(1e-6, 1e-3, n); b[:, LAMBDA] = rng.uniform(0.01, 0.1, n); b[:, LOSS_COEFFICIENT] = rng.choice([0, 1, 10], n)
    b[:, PL] = rng.choice([0, 0.5], n); b[:, MDOTINIT] = rng.choice([0, 1e-12, 1e-9, -1e-9, 1e-7, 0.1, -0.1, 5, -5, np.nan], n)
    b[:, TOUTINIT] = rng.uniform(270, 400, n); b[:, TEXT]=rng.uniform(260,300,n); b[:, ALPHA]=rng.choice([0,1,10],n); b[:, DO]=b[:,D]*1.1
    b[:, TL]=0; b[:, QEXT]=rng.choice([0,1000,-1000],n)
    nd[:, TN_] = rng.uniform(270, 400, nn); nd[:, HEIGHT] = rng.uniform(0, 100, nn); nd[:, PINIT] = rng.choice([1, 5, 5, 10], nn); nd[:, PAMB] = 1.0
    return b, nd
mx = {}
for it in range(200):
    n, nn = int(rng.integers(1, 20)), int(rng.integers(1, 8))
    b, nd = mk(n, nn)
    fn, tn = b[:, FROM_NODE].astype(np.int32), b[:, TO_NODE].astype(np.int32)
    a = T.calc_derived_values_np(nd, fn, tn); c = N.calc_derived_values_numba(nd, fn, tn)
    for i,(x,y) in enumerate(zip(a,c)): assert np.array_equal(x,y,equal_nan=True)
    tin, dh, pi, pi1 = a
    der_l = rng.uniform(-1e-3, 1e-3, n); rho = rng.uniform(900, 1000, n)
    r1 = T.derivatives_hydraulic_incomp_np(b, der_l, pi, pi1, dh, rho); r2 = N.derivatives_hydraulic_incomp_numba(b, der_l, pi, pi1, dh, rho)
    for i,(x,y) in enumerate(zip(r1,r2)):
        d = np.nanmax(np.abs(x-y)/(np.abs(x)+1e-300)) if np.any(~np.isnan(x)) else 0; mx[("incomp",i)] = max(mx.get(("incomp",i),0), d); assert np.array_equal(np.isnan(x),np.isnan(y))
    comp = rng.uniform(0.9,1,n); dc = rng.uniform(-1e-3,0,n); rhon = np.full(n,0.8)
    r1 = T.derivatives_hydraulic_comp_np(nd, b, b[:,LAMBDA].copy(), der_l, pi, pi1, dh, comp, dc, -dc, rho/1000, rhon); r2 = N.derivatives_hydraulic_comp_numba(nd, b, b[:,LAMBDA].copy(), der_l, pi, pi1, dh, comp, dc, -dc, rho/1000, rhon)
    for i,(x,y) in enumerate(zip(r1,r2)):
        ok = ~(np.isnan(x)|np.isnan(y))
        d = np.max(np.abs(x-y)[ok]/(np.abs(x[ok])+1e-300)) if ok.any() else 0; mx[("comp",i)] = max(mx.get(("comp",i),0), d)
        if not np.array_equal(np.isnan(x),np.isnan(y)): mx[("comp-nanmismatch",i)] = mx.get(("comp-nanmismatch",i),0)+1
    p1, p2 = T.calc_medium_pressure_with_derivative_np(pi,pi1), N.calc_medium_pressure_with_derivative_numba(pi,pi1)
    for i,(x,y) in enumerate(zip(p1,p2)): mx[("pm",i)] = max(mx.get(("pm",i),0), np.max(np.abs(x-y)))
    eta = np.full(n, 1e-3)
    for nm,f1,f2 in (("niki",T.calc_lambda_nikuradse_incomp_np,N.calc_lambda_nikuradse_incomp_numba),("nikc",T.calc_lambda_nikuradse_comp_np,N.calc_lambda_nikuradse_comp_numba)):
        m = np.nan_to_num(b[:,MDOTINIT])
        q1,q2 = f1(m,b[:,D],b[:,K],eta,b[:,AREA]), f2(m,b[:,D],b[:,K],eta,b[:,AREA])
        for i,(x,y) in enumerate(zip(q1,q2)): mx[(nm,i)] = max(mx.get((nm,i),0), np.max(np.abs(x-y)/(np.abs(x)+1e-300)))
for k,v in sorted(mx.items()): print(k,v)

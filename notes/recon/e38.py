import warnings; warnings.filterwarnings("ignore")
import numpy as np, pandas as pd, time, logging, copy, collections
logging.disable(logging.CRITICAL)
import pandapipes as pp
exec(open("e12.py").read().split("stats = dict")[0])
rng = np.random.default_rng(21)
stats = collections.Counter(); worst = 0; worstcase=None
TIGHT = dict(iter=100, tol_p=1e-10, tol_m=1e-10, tol_res=1e-9)
for it in range(250):
    fluid = rng.choice(["water", "lgas", "hydrogen"])
    net = gen(fluid, int(rng.integers(2, 10)), int(rng.integers(0, 4)), rng)
    if rng.random() < 0.5 and len(net.pipe) > 1:
        # replace one pipe by a pump (water) or compressor (gas)
        p = net.pipe.iloc[0]; net.pipe.drop(net.pipe.index[0], inplace=True)
        if fluid == "water": pp.create_pump(net, int(p.from_junction), int(p.to_junction), "P1")
        else: pp.create_compressor(net, int(p.from_junction), int(p.to_junction), 1.2)
        stats["with_machine"] += 1
    outs = []
    for k in range(3):
        n = copy.deepcopy(net)
        if k: n.junction["pn_bar"] = net.junction.pn_bar.values * rng.uniform(0.3, 3, len(net.junction))
        try:
            pp.pipeflow(n, nonlinear_method=["constant","automatic","constant"][k], **TIGHT); outs.append(np.r_[n.res_junction.p_bar.values, n.res_pipe.mdot_from_kg_per_s.values])
        except Exception as e: stats["fail%d"%k] += 1
    if len(outs) >= 2:
        stats["pairs"] += 1
        d = max(np.nanmax(np.abs(o - outs[0])) for o in outs[1:]); 
        if d > worst: worst = d; worstcase = (it, fluid)
        if d > 1e-6: stats["DISAGREE"] += 1; print("disagree", it, fluid, d, len(net.pump) if "pump" in net else 0, len(net.compressor))
print(stats, worst, worstcase)

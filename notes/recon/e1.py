import warnings; warnings.filterwarnings("ignore")
import numpy as np, pandas as pd, time
import pandapipes as pp
# 1. loss coefficient x sections
def mk(sections, lc, fluid="water"):
    net = pp.create_empty_network(fluid=fluid)
    j = pp.create_junctions(net, 2, 5, 300)
    pp.create_ext_grid(net, j[0], 5, 300)
    pp.create_sink(net, j[1], 1.0)
    pp.create_pipe_from_parameters(net, j[0], j[1], 0.5, 80, k_mm=0.1, loss_coefficient=lc, sections=sections)
    t=time.time(); pp.pipeflow(net); 
    return net.res_junction.p_bar.values, time.time()-t
for s in (1,2,5):
    print("sections",s,"lc=0",mk(s,0), "lc=5", mk(s,5))

import warnings; warnings.filterwarnings("ignore")
import numpy as np, pandas as pd, logging, copy, time, tempfile, os
logging.disable(logging.CRITICAL)
import pandapipes as pp, pandapower as ppow, networkx as nx
import pandapipes.topology as top
from pandapower import networks as e_nw
from pandapower.control import ConstControl
from pandapower.timeseries import DFData
from pandapipes.multinet.control.controller.multinet_control import P2GControlMultiEnergy
from pandapipes.multinet.create_multinet import create_empty_multinet, add_nets_to_multinet
pd.set_option("display.width",250)
def gasnet(fluid):
    net = pp.create_empty_network(fluid=fluid); pp.create_junctions(net, 4, 30, 293.15, index=[4,2,9,1]); pp.create_ext_grid(net, 4, 30, 293.15)
    pp.create_pipes_from_parameters(net, [4,2,9,4],[2,9,1,1], [1.0,0.5,0.25,3.0], 300., k_mm=0.1, index=[5,1,3,2]); pp.create_sink(net, 9, 0.3); return net
g = gasnet("hgas")
pp.create_mass_storage(g, 2, 0.01); pp.create_compressor(g, 9, 1, 1.1)
prof = pd.DataFrame({"a":[0.1,0.2]})
ConstControl(g, "sink", "mdot_kg_per_s", element_index=[0], data_source=DFData(prof), profile_name=["a"])
pp.pipeflow(g, iter=100, nonlinear_method="automatic")
s = pp.to_json(g); g2 = pp.from_json_string(s)
print("ctrl net equal", pp.nets_equal(g, g2), type(g2.controller.object.iat[0]).__name__, g2.controller.object.iat[0].data_source.df.equals(prof))
for t in g.keys():
    if isinstance(g[t], pd.DataFrame) and t in g2:
        a,b = g[t].sort_index(), g2[t].sort_index()
        if not a.dtypes.equals(b.dtypes): print("  dtype diff", t, [(c, a.dtypes[c], b.dtypes[c]) for c in a.columns if a.dtypes[c]!=b.dtypes[c]])
        if a.index.dtype != b.index.dtype: print("  index dtype", t, a.index.dtype, b.index.dtype)
        if list(a.columns)!=list(b.columns): print("  column order", t)
pw = e_nw.example_simple(); mn = create_empty_multinet("m"); add_nets_to_multinet(mn, power=pw, gas=g)
l = ppow.create_load(pw, 5, 2.0); sidx = pp.create_source(g, 2, 0.0); P2GControlMultiEnergy(mn, l, sidx, 0.7)
ms = pp.to_json(mn); mn2 = pp.from_json_string(ms)
print("multinet:", type(mn2).__name__, list(mn2.nets.keys()), type(mn2.nets["gas"]).__name__, type(mn2.nets["power"]).__name__, "gas equal", pp.nets_equal(mn.nets["gas"], mn2.nets["gas"]), "ctrl", type(mn2.controller.object.iat[0]).__name__)
with tempfile.TemporaryDirectory() as d:
    pp.to_pickle(mn, os.path.join(d,"m.p")); mn3 = pp.from_pickle(os.path.join(d,"m.p")); print("pickle multinet type", type(mn3).__name__)
# (c) graph on ju-only
mg = top.create_nxgraph(g)
print(sorted(mg.edges(keys=True, data="weight")))
print(top.calc_distance_to_junction(g, 4).sort_index().to_dict())
G = nx.Graph(); [G.add_edge(a,b,weight=w) for a,b,w in [(4,2,1.0),(2,9,0.5),(9,1,0.25),(4,1,3.0),(9,1,0.0)]]
print(dict(sorted(nx.single_source_dijkstra_path_length(G,4).items())))
print(top.calc_minimum_distance_to_junctions(g, [4,9]).sort_index().to_dict(), top.calc_distance_to_junctions(g, [4,9]).sort_index().to_dict())
sg = top.create_nxgraph(g, multi=False); print("simple graph edges", sorted(sg.edges(data=True)))
print("----- dig")
from pandapower.toolbox import dataframes_equal
for t in g.keys():
    if isinstance(g[t], pd.DataFrame):
        if t not in g2: print("missing", t); continue
        try: eq = dataframes_equal(g[t], g2[t])
        except Exception as e: eq = "ERR %s" % e
        if eq is not True: print(t, eq); print(g[t].head(3)); print(g2[t].head(3))
print(set(g.keys()) ^ set(g2.keys()))

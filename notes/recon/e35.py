import warnings; warnings.filterwarnings("ignore")
import numpy as np, pandas as pd, logging, os
logging.disable(logging.CRITICAL)
import pandapipes as pp
from pandapipes.properties.fluids import call_lib, _LIQUIDS, _GASES
from pandapipes.properties import properties_toolbox as ptb
from pandapipes import pp_dir
issues=[]
for fl in _LIQUIDS+_GASES:
    f = call_lib(fl)
    for prop in ("density","viscosity","heat_capacity"):
        tab = np.loadtxt(os.path.join(pp_dir,"properties",fl,prop+".txt"))
        x,y = tab[:,0],tab[:,1]
        g = f.get_property(prop, x)
        if not np.allclose(g,y,rtol=1e-13): issues.append((fl,prop,"table"))
        if np.any(np.diff(x)<=0): issues.append((fl,prop,"x not increasing"))
        # mid points + extrapolation
        xm = (x[:-1]+x[1:])/2; ym=(y[:-1]+y[1:])/2
        if not np.allclose(f.get_property(prop,xm),ym,rtol=1e-12): issues.append((fl,prop,"mid"))
        lo = x[0]-10; hi = x[-1]+25
        elo = y[0]+(y[1]-y[0])/(x[1]-x[0])*(lo-x[0]); ehi = y[-1]+(y[-1]-y[-2])/(x[-1]-x[-2])*(hi-x[-1])
        if not np.allclose([f.get_property(prop,lo),f.get_property(prop,hi)],[elo,ehi],rtol=1e-12): issues.append((fl,prop,"extrap"))
        for q in (300.0, np.array([300.,310.]), pd.Series([300.,310.,320.]), [300.,301.]):
            r = f.get_property(prop,q)
            if np.shape(r)!=np.shape(q): issues.append((fl,prop,"shape",type(q).__name__,np.shape(r)))
    sl, off = np.loadtxt(os.path.join(pp_dir,"properties",fl,"compressibility.txt")); dc = f.get_der_compressibility()
    if not np.isclose(sl, dc): issues.append((fl,"compressibility slope vs der",sl,float(np.ravel(dc)[0])))
    for q in (3.0, np.array([1.,3.]), pd.Series([1.,2.,3.])):
        r = f.get_compressibility(q)
        if np.shape(r)!=np.shape(q): issues.append((fl,"compr shape",type(q).__name__,np.shape(r)))
        if not np.allclose(r, off+sl*np.asarray(q)): issues.append((fl,"compr value"))
    for q in (300.0, np.array([300.,310.])):
        for nm in ("molar_mass","der_compressibility"):
            r = f.get_property(nm, q) 
            if np.shape(r)!=np.shape(q): issues.append((fl,nm,"const shape",type(q).__name__,np.shape(r)))
print(len(issues)); [print(i) for i in issues[:30]]
# mixtures
mm = np.array([16.04, 28.01, 44.01]); xi = np.array([0.7,0.2,0.1])
w = ptb.calculate_mass_fraction_from_molar_fraction(xi, mm); print("mass fractions", w, w.sum())
M1 = ptb.calculate_mixture_molar_mass(mm, components_molar_proportions=xi); M2 = ptb.calculate_mixture_molar_mass(mm, components_mass_proportions=w); print("molar mass", M1, M2)
rho = np.array([0.7, 1.2, 1.9]); print("density", ptb.calculate_mixture_density(rho, w), "cp", ptb.calculate_mixture_heat_capacity(np.array([2000.,1000.,800.]), w), "visc", ptb.calculate_mixture_viscosity(np.array([1e-5,1.7e-5,1.4e-5]), xi, mm))
rho2 = np.array([[0.7,0.71],[1.2,1.21],[1.9,1.91]]); print("density 2d", ptb.calculate_mixture_density(rho2, w))

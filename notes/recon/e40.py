import warnings; warnings.filterwarnings("ignore")
import numpy as np, pandas as pd, time, logging, copy, collections
logging.disable(logging.CRITICAL)
import pandapipes as pp
exec(open("e12.py").read().split("stats = dict")[0])
rng = np.random.default_rng(33)
TIGHT = dict(iter=100, tol_p=1e-11, tol_m=1e-11, tol_res=1e-10)
stats = collections.Counter(); worst = collections.defaultdict(float)
for it in range(200):
    fluid = rng.choice(["water", "lgas"])
    net = gen(fluid, int(rng.integers(2, 10)), int(rng.integers(0, 4)), rng)
    try: pp.pipeflow(net, **TIGHT)
    except Exception: stats["basefail"]+=1; continue
    # reversal of random subset
    n = copy.deepcopy(net); m = rng.random(len(n.pipe)) < 0.5
    f = n.pipe.from_junction.values.copy(); n.pipe.loc[m, "from_junction"] = n.pipe.to_junction.values[m]; n.pipe.loc[m, "to_junction"] = f[m]
    pp.pipeflow(n, **TIGHT)
    worst["rev_p"] = max(worst["rev_p"], np.nanmax(np.abs(n.res_junction.p_bar.values-net.res_junction.p_bar.values)))
    sgn = np.where(m, -1, 1)
    worst["rev_m"] = max(worst["rev_m"], np.nanmax(np.abs(n.res_pipe.mdot_from_kg_per_s.values*sgn-net.res_pipe.mdot_from_kg_per_s.values)))
    worst["rev_v"] = max(worst["rev_v"], np.nanmax(np.abs(n.res_pipe.v_mean_m_per_s.values*sgn-net.res_pipe.v_mean_m_per_s.values)))
    pf = np.where(m, n.res_pipe.p_to_bar.values, n.res_pipe.p_from_bar.values)
    worst["rev_pfrom"] = max(worst["rev_pfrom"], np.nanmax(np.abs(pf-net.res_pipe.p_from_bar.values)))
    for c in ("lambda","reynolds"): worst["rev_"+c] = max(worst["rev_"+c], np.nanmax(np.abs(n.res_pipe[c].values-net.res_pipe[c].values)/np.maximum(1e-12,np.abs(net.res_pipe[c].values))))
    # aggregation: replace all sinks/sources by one sink per junction
    n = copy.deepcopy(net)
    tot = (n.sink.mdot_kg_per_s*n.sink.scaling*n.sink.in_service).groupby(n.sink.junction).sum()
    if len(n.source): tot = tot.sub((n.source.mdot_kg_per_s*n.source.scaling*n.source.in_service).groupby(n.source.junction).sum(), fill_value=0)
    n.sink.drop(n.sink.index, inplace=True); n.source.drop(n.source.index, inplace=True)
    pp.create_sinks(n, tot.index.values, tot.values)
    pp.pipeflow(n, **TIGHT)
    worst["agg_p"] = max(worst["agg_p"], np.nanmax(np.abs(n.res_junction.p_bar.values-net.res_junction.p_bar.values)))
    # pressure shift (liquid)
    if fluid=="water":
        n = copy.deepcopy(net); n.ext_grid.p_bar += 2.5; pp.pipeflow(n, **TIGHT)
        worst["shift_p"] = max(worst["shift_p"], np.nanmax(np.abs(n.res_junction.p_bar.values-2.5-net.res_junction.p_bar.values)))
        worst["shift_m"] = max(worst["shift_m"], np.nanmax(np.abs(n.res_pipe.mdot_from_kg_per_s.values-net.res_pipe.mdot_from_kg_per_s.values)))
    stats["ok"]+=1
print(stats); [print(k, v) for k,v in sorted(worst.items())]

import warnings; warnings.filterwarnings("ignore")
import numpy as np, pandas as pd, logging
logging.disable(logging.CRITICAL)
import pandapipes as pp
pd.set_option("display.width",250); pd.set_option("display.max_columns",50)
net = pp.create_empty_network(fluid="lgas")
j = pp.create_junctions(net, 5, 1.0, 293.15)
net.junction.loc[1, "in_service"] = False
pp.create_ext_grid(net, 0, 1.0, 293.15)
pp.create_pipes_from_parameters(net, [0,1,2,3], [1,2,3,4], 0.3, 50., k_mm=0.1)
pp.create_sink(net, 4, 0.01); pp.create_sink(net, 1, 0.01)
pp.pipeflow(net)
print(net.res_junction); print(net.res_pipe[["mdot_from_kg_per_s"]]); print(net.res_sink, net.res_ext_grid)
# ext grid on OOS junction
net.junction.in_service = True; net.junction.loc[0,"in_service"]=False
try:
    pp.pipeflow(net); print(net.res_junction); print(net.res_ext_grid)
except Exception as e: print("ERR", type(e).__name__, e)

import warnings; warnings.filterwarnings("ignore")
import numpy as np, pandas as pd, time, logging
logging.disable(logging.CRITICAL)
import pandapipes as pp
rng = np.random.default_rng(1)
def gen(fluid, n, extra, rng):
    net = pp.create_empty_network(fluid=fluid)
    gas = net.fluid.is_gas
    p0 = rng.uniform(0.5, 16) if gas else rng.uniform(3, 10)
    T = rng.uniform(278, 360)
    h = rng.uniform(0, 60, n) * (rng.random() < 0.5)
    pp.create_junctions(net, n, p0, T, height_m=h)
    pp.create_ext_grid(net, 0, p0, T)
    edges = [(rng.integers(0, i), i) for i in range(1, n)]
    for _ in range(extra):
        a, b = rng.choice(n, 2, replace=False); edges.append((a, b))
    for a, b in edges:
        if rng.random() < 0.5: a, b = b, a
        pp.create_pipe_from_parameters(net, a, b, rng.uniform(0.01, 2), rng.choice([50, 80, 100, 150, 300]), k_mm=rng.uniform(0.01, 1), loss_coefficient=rng.choice([0, 0, 2.5]), sections=int(rng.choice([1,1,2,4])))
    ns = rng.integers(1, n)
    for jn in rng.choice(np.arange(1, n), ns, replace=False):
        m = rng.uniform(0.001, 0.05) if gas else rng.uniform(0.05, 2)
        if rng.random() < 0.25: pp.create_source(net, jn, m*0.5)
        else: pp.create_sink(net, jn, m, scaling=rng.choice([1, 0.5, 2]))
    return net
stats = dict(ok=0, fail=0); worst = 0; t0=time.time()
for it in range(300):
    fluid = rng.choice(["water", "lgas", "hgas", "hydrogen"])
    net = gen(fluid, int(rng.integers(2, 12)), int(rng.integers(0, 4)), rng)
    try:
        pp.pipeflow(net, friction_model=rng.choice(["nikuradse","colebrook","swamee-jain"]), use_numba=bool(rng.random()<0.5), iter=30)
    except Exception as e:
        stats["fail"] += 1; stats.setdefault(type(e).__name__+":"+str(e)[:50], 0); stats[type(e).__name__+":"+str(e)[:50]] += 1; continue
    stats["ok"] += 1
    bal = pd.Series(0.0, index=net.junction.index)
    for r, p in zip(net.res_pipe.itertuples(), net.pipe.itertuples()):
        bal[p.from_junction] -= r.mdot_from_kg_per_s; bal[p.to_junction] -= r.mdot_to_kg_per_s
    for r, p in zip(net.res_sink.itertuples(), net.sink.itertuples()): bal[p.junction] -= r.mdot_kg_per_s
    if len(net.source):
        for r, p in zip(net.res_source.itertuples(), net.source.itertuples()): bal[p.junction] += r.mdot_kg_per_s
    for r, p in zip(net.res_ext_grid.itertuples(), net.ext_grid.itertuples()): bal[p.junction] -= r.mdot_kg_per_s
    scale = max(1e-12, net.res_pipe.mdot_from_kg_per_s.abs().max())
    worst = max(worst, bal.abs().max()/scale)
    if net.res_junction.p_bar.min() < 0: stats.setdefault("negp",0); stats["negp"]+=1
print(stats, "worst rel imbalance", worst, "time", time.time()-t0)

import warnings; warnings.filterwarnings("ignore")
import numpy as np, logging
logging.disable(logging.CRITICAL)
import pandapipes as pp
import importlib; pf = importlib.import_module("pandapipes.pipeflow")
from pandapower.auxiliary import ADict
from pandapipes.idx_branch import branch_cols
from pandapipes.idx_node import node_cols
# scripted driver
class Net(ADict): pass
def run(script, method, max_iter, tols=(1e-5,1e-5,1e-5), tol_res=1e-3):
    net = Net(); net["converged"]=False
    net["_options"] = dict(max_iter_hyd=max_iter, nonlinear_method=method, tol_res=tol_res, alpha=1)
    nb, nn = 3, 2
    net["_active_pit"] = {"branch": np.zeros((nb, branch_cols)), "node": np.zeros((nn, node_cols))}
    it = iter(script); calls=[0]
    def funct(net):
        calls[0]+=1
        errs, res = next(it)
        new = [np.full(nb, errs[0]), np.zeros(nb), np.full(nn, errs[1]), np.zeros(nn), np.full(1, errs[2]), np.zeros(1)]
        return new, np.array([res]), [None, None, np.array([0])]
    pf.newton_raphson(net, funct, "hydraulics", ['mdot','p','mdotslack'], list(tols), ['branch','node','node'], 'max_iter_hyd')
    return net.converged, calls[0], net["_options"]["alpha"], net["_internal_results"]
print(run([((1,1,1),1),((1e-6,1e-6,1e-6),1e-4)]*5, "constant", 10))
print(run([((1,1,1),1),((np.nan,1e-6,1e-6),1e-4)]*5, "constant", 10))
print(run([((1,1,1),1),((2,2,2),1),((1e-6,1e-6,1e-6),1e-4),((1e-7,1e-7,1e-7),1e-4),((1e-8,1e-8,1e-8),1e-4)]+[((1e-9,1e-9,1e-9),1e-9)]*10, "automatic", 10))

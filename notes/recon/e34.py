import warnings; warnings.filterwarnings("ignore")
import numpy as np, pandas as pd, logging, copy, itertools
logging.disable(logging.CRITICAL)
import pandapipes as pp
from pandapipes.pf.pipeflow_setup import default_options, init_options, set_user_pf_options
# (d) options
D0 = copy.deepcopy(default_options)
net = pp.create_empty_network(fluid="water")
bad = []
def ref(user, call):
    def expand(o):
        o = dict(o)
        if "iter" in o and o["iter"] is not None:
            for k in ("max_iter_hyd","max_iter_therm","max_iter_bidirect"): o.setdefault(k, o["iter"])
        return o
    r = {**D0, **expand(user), **expand(call)}
    if not r["only_update_hydraulic_matrix"]: r["reuse_internal_data"] = False
    if r["mode"] == "all": r["mode"] = "sequential"
    r["fluid"] = "water"
    return r
sent = {"friction_model":["colebrook","swamee-jain"],"mode":["sequential","all"],"nonlinear_method":["automatic","constant"]}
n=0
for key in list(D0)+["iter","zzz_unknown"]:
    for pu, pc in itertools.product([0,1],[0,1]):
        vu, vc = (sent[key] if key in sent else ([True, False] if isinstance(D0.get(key), bool) else [7, 9]))
        user = {key: vu} if pu else {}; call = {key: vc} if pc else {}
        net.user_pf_options = {}
        if user: set_user_pf_options(net, **user)
        ucopy = copy.deepcopy(net.user_pf_options)
        init_options(net, **call); n+=1
        exp = ref(user, call)
        got = dict(net._options)
        if got != exp: bad.append((key, user, call, {k:(got.get(k), exp.get(k)) for k in set(got)|set(exp) if got.get(k)!=exp.get(k)}))
        if net.user_pf_options != ucopy or default_options != D0: bad.append(("MUTATION", key))
for ui, uh, ut, ub, ci, ch, ct, cb in itertools.product([0,1], repeat=8):
    user = {}; call = {}
    if ui: user["iter"]=11
    if uh: user["max_iter_hyd"]=12
    if ut: user["max_iter_therm"]=13
    if ub: user["max_iter_bidirect"]=14
    if ci: call["iter"]=21
    if ch: call["max_iter_hyd"]=22
    if ct: call["max_iter_therm"]=23
    if cb: call["max_iter_bidirect"]=24
    net.user_pf_options = {}; 
    if user: set_user_pf_options(net, **user)
    init_options(net, **call); n+=1
    exp = ref(user, call); got = dict(net._options)
    if got != exp: bad.append(("iter", user, call, {k:(got.get(k), exp.get(k)) for k in set(got)|set(exp) if got.get(k)!=exp.get(k)}))
print("options cases", n, "mismatches", len(bad)); [print("  ", b) for b in bad[:8]]
# (g) failure post-state
def mk(load):
    net = pp.create_empty_network(fluid="lgas"); pp.create_junctions(net, 3, 1.0, 293.15); pp.create_ext_grid(net, 0, 1.0, 293.15)
    pp.create_pipes_from_parameters(net, [0,1],[1,2],0.5,50.,k_mm=0.1); pp.create_sink(net, 2, load); return net
net = mk(0.01); pp.pipeflow(net); print("ok", net.converged, net.res_junction.p_bar.values)
net.sink.mdot_kg_per_s = 50.0
for kw in (dict(), dict(nonlinear_method="automatic"), dict(max_iter_hyd=1), dict(tol_p=0.0, tol_m=0.0)):
    net.sink.mdot_kg_per_s = 50.0 if "tol_p" not in kw and "max_iter_hyd" not in kw else 0.01
    pp.pipeflow(mk(0.01)) 
    n2 = mk(0.01); pp.pipeflow(n2); n2.sink.mdot_kg_per_s = net.sink.mdot_kg_per_s.values
    try: pp.pipeflow(n2, **kw); print(kw, "returned", n2.converged, n2._internal_results.get("iterations_hydraulics"))
    except Exception as e:
        finite = {t: int(np.isfinite(n2[t].select_dtypes(float).values).sum()) for t in n2.keys() if t.startswith("res_")}
        print(kw, "raised", type(e).__name__, "converged", n2.converged, "finite entries", {k:v for k,v in finite.items() if v})

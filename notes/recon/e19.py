import warnings; warnings.filterwarnings("ignore")
import numpy as np, pandas as pd, logging, copy
logging.disable(logging.CRITICAL)
import pandapipes as pp
exec(open("e12.py").read().split("stats = dict")[0])
rng = np.random.default_rng(5)
bad=0; tot=0; mx=0
for it in range(60):
    fluid = rng.choice(["water","lgas"])
    net = gen(fluid, int(rng.integers(3, 10)), int(rng.integers(0, 3)), rng)
    base = copy.deepcopy(net)
    for step in range(4):
        f = rng.uniform(0.2, 1.5, len(net.sink)); 
        if step: net.sink["mdot_kg_per_s"] = base.sink.mdot_kg_per_s.values * f
        if step==2 and len(net.sink) and rng.random()<0.5: net.sink.loc[net.sink.index[0], "in_service"] = False
        fresh = copy.deepcopy(net); 
        for k in [k for k in fresh.keys() if k.startswith("_")]: del fresh[k]
        try: pp.pipeflow(fresh, iter=30); okf=True
        except Exception: okf=False
        try: pp.pipeflow(net, iter=30, only_update_hydraulic_matrix=True, reuse_internal_data=True); oku=True
        except Exception as e: oku=False
        tot+=1
        if okf!=oku: bad+=1; print("verdict mismatch", it, step, okf, oku); continue
        if okf:
            d = np.nanmax(np.abs(net.res_junction.p_bar.values-fresh.res_junction.p_bar.values)); mx=max(mx,d)
print("tot",tot,"bad",bad,"maxdiff",mx)

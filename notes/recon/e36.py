import warnings; warnings.filterwarnings("ignore")
import numpy as np, pandas as pd, logging, copy, time, tempfile
logging.disable(logging.CRITICAL)
import pandapipes as pp, pandapower as ppow
from pandapower import networks as e_nw
from pandapower.timeseries import OutputWriter, DFData
from pandapipes.multinet.control.controller.multinet_control import P2GControlMultiEnergy, G2PControlMultiEnergy, GasToGasConversion, coupled_p2g_const_control
from pandapipes.multinet.control.run_control_multinet import run_control
from pandapipes.multinet.timeseries.run_time_series_multinet import run_timeseries
from pandapipes.multinet.create_multinet import create_empty_multinet, add_nets_to_multinet
def gasnet(fluid):
    net = pp.create_empty_network(fluid=fluid); pp.create_junctions(net, 4, 30, 293.15); pp.create_ext_grid(net, 0, 30, 293.15)
    pp.create_pipes_from_parameters(net, [0,1,2,0],[1,2,3,3], 1.0, 300., k_mm=0.1); pp.create_sink(net, 2, 0.3); return net
t=time.time()
pw = e_nw.example_simple(); g1 = gasnet("hgas"); g2 = gasnet("hydrogen")
mn = create_empty_multinet("m"); add_nets_to_multinet(mn, power=pw, gas=g1, gas2=g2)
l = ppow.create_loads(pw, [5,6], p_mw=[2.0, 3.0], scaling=[0.5, 1.0]); s = pp.create_sources(g1, [1,3], 0.0)
P2GControlMultiEnergy(mn, l, s, efficiency=0.7)
sk = pp.create_sink(g1, 1, 0.05, scaling=2.0); sg = ppow.create_sgen(pw, 6, 0.0)
G2PControlMultiEnergy(mn, sg, sk, efficiency=0.4, order=1)
k2 = pp.create_sink(g1, 3, 0.02); s2 = pp.create_source(g2, 2, 0.0)
GasToGasConversion(mn, k2, s2, efficiency=0.8, name_gas_net_from="gas", name_gas_net_to="gas2", order=2)
run_control(mn)
hhv = 14.62197; hh2 = 39.41
print("p2g", g1.source.mdot_kg_per_s[s].values, np.array([2*0.5,3*1.0])*0.7/(hhv*3.6))
print("g2p", pw.sgen.p_mw[sg], 0.05*2*hhv*3.6*0.4, "g2g", g2.source.mdot_kg_per_s[s2], 0.02*hhv/hh2*0.8)
# standalone equality
c1 = copy.deepcopy(g1); 
for k in [k for k in c1.keys() if k.startswith("_")]: del c1[k]
pp.pipeflow(c1); print("gas standalone equal", np.array_equal(c1.res_junction.p_bar.values, g1.res_junction.p_bar.values), "power", end=" ")
cp_ = copy.deepcopy(pw); ppow.runpp(cp_); print(np.allclose(cp_.res_bus.vm_pu.values, pw.res_bus.vm_pu.values, atol=1e-12), "time", time.time()-t)
# time series
prof = pd.DataFrame({"a":[1.0,2.0,5.0],"b":[0.5,0.1,3.0]})
from pandapower.control import ConstControl
ConstControl(pw, "load", "p_mw", element_index=l, data_source=DFData(prof), profile_name=["a","b"], order=-1)
with tempfile.TemporaryDirectory() as d:
    OutputWriter(g1, range(3), output_path=d, log_variables=[("res_junction","p_bar"),("source","mdot_kg_per_s")])
    OutputWriter(pw, range(3), output_path=d, log_variables=[("res_bus","vm_pu")])
    OutputWriter(g2, range(3), output_path=d, log_variables=[("res_junction","p_bar")])
    t=time.time(); run_timeseries(mn, time_steps=range(3), verbose=False); print("ts time", time.time()-t)
    print(g1.output_writer.iat[0,0].output["source.mdot_kg_per_s"])

import warnings; warnings.filterwarnings("ignore")
import numpy as np, pandas as pd, io, os, tempfile
import pandapipes as pp
from pandapipes.properties.fluids import *
net = pp.create_empty_network(fluid="water", name="x")
j = pp.create_junctions(net, 5, 5, 320, index=[3,1,7,9,20], name=["a",None,"c",None,None], foo=[1,2,3,4,5])
pp.create_ext_grid(net, 3, 5, 330, type="pt")
pp.create_pipe(net, 3, 1, "80_GGG", 0.3, sections=3, u_w_per_m2k=3., text_k=290.)
pp.create_pipe_from_parameters(net, 1, 7, 0.5, 80, k_mm=0.1, index=10)
pp.create_pump_from_parameters(net, 7, 9, "mypump", pressure_list=[6,5,3], flowrate_list=[0,20,80], reg_polynomial_degree=2)
pp.create_valve(net, 9, 20, "ju", 80.)
pp.create_sink(net, 20, 1.0)
pp.create_heat_exchanger(net, 1, 7, 1000., 80.)
pp.set_user_pf_options(net, tol_m=1e-6)
net.fluid.add_property("myprop", FluidPropertyPolynominal([1,2,3],[2,4,8],2))
net.fluid.add_property("lin", FluidPropertyLinear(2., 1.))
pp.pipeflow(net, mode="sequential", max_iter_hyd=100, iter=100)
s = pp.to_json(net)
n2 = pp.from_json_string(s)
print("nets_equal", pp.nets_equal(net, n2))
for t in net.keys():
    if isinstance(net[t], pd.DataFrame):
        a, b = net[t].sort_index(), n2[t].sort_index() if t in n2 else None
        if b is None: print("missing", t); continue
        if not a.dtypes.equals(b.dtypes): print("dtype diff", t, "\n", pd.concat([a.dtypes,b.dtypes],axis=1))
        if a.index.dtype != b.index.dtype: print("index dtype", t, a.index.dtype, b.index.dtype)
print(type(n2.fluid), n2.fluid)
for k,p in net.fluid.all_properties.items():
    if k=="myprop": print("poly loaded:", n2.fluid.all_properties[k].__dict__); continue
    q = n2.fluid.all_properties[k]
    print(k, type(p).__name__, type(q).__name__, p.get_at_value(300.) if not isinstance(p, FluidPropertyConstant) else p.get_at_value(), q.get_at_value(300.) if not isinstance(q, FluidPropertyConstant) else q.get_at_value())
print(n2.user_pf_options, n2.std_types["pump"]["mypump"].reg_par, net.std_types["pump"]["mypump"].reg_par)
print(n2.component_list == net.component_list, n2.sector, type(n2.sector), net.sector, type(net.sector))
pp.pipeflow(n2, mode="sequential", iter=100)
print((n2.res_junction.sort_index()-net.res_junction.sort_index()).abs().max())
# pickle
with tempfile.TemporaryDirectory() as d:
    pp.to_pickle(net, os.path.join(d,"a.p")); n3 = pp.from_pickle(os.path.join(d,"a.p"))
    print("pickle equal", pp.nets_equal(net, n3))
    pp.to_json(net, os.path.join(d,"a.json"), encryption_key="k"); n4 = pp.from_json(os.path.join(d,"a.json"), encryption_key="k"); print("enc equal", pp.nets_equal(net,n4))

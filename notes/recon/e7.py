import warnings; warnings.filterwarnings("ignore")
import inspect, pandapipes as pp
for n in sorted(dir(pp)):
    if n.startswith("create_") :
        f = getattr(pp, n)
        try: print(n, inspect.signature(f))
        except Exception as e: print(n, "ERR", e)

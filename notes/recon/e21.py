import warnings; warnings.filterwarnings("ignore")
import numpy as np, pandas as pd, logging, copy
logging.disable(logging.CRITICAL)
import pandapipes as pp
pd.set_option("display.width",250); pd.set_option("display.max_columns",50)
TIGHT = dict(iter=100, tol_p=1e-11, tol_m=1e-11, tol_res=1e-10, tol_T=1e-9)
# (1) n sections vs n pipes in series, gas with heights
for fluid in ("lgas","water"):
    a = pp.create_empty_network(fluid=fluid); ja = pp.create_junctions(a, 2, 3, 300, height_m=[0, 40])
    pp.create_ext_grid(a, 0, 3, 300); pp.create_sink(a, 1, 0.3 if fluid=="lgas" else 3)
    pp.create_pipe_from_parameters(a, 0, 1, 2.0, 100, k_mm=0.2, sections=4, loss_coefficient=0)
    pp.pipeflow(a, **TIGHT)
    b = pp.create_empty_network(fluid=fluid); jb = pp.create_junctions(b, 5, 3, 300, height_m=[0,10,20,30,40])
    pp.create_ext_grid(b, 0, 3, 300); pp.create_sink(b, 4, 0.3 if fluid=="lgas" else 3)
    pp.create_pipes_from_parameters(b, [0,1,2,3],[1,2,3,4], 0.5, 100, k_mm=0.2)
    pp.pipeflow(b, **TIGHT)
    c = copy.deepcopy(a); c.pipe.sections=1; pp.pipeflow(c, **TIGHT)
    print(fluid, "4 sections", a.res_junction.p_bar[1], "4 pipes", b.res_junction.p_bar[4], "1 section", c.res_junction.p_bar[1], "v_mean", a.res_pipe.v_mean_m_per_s[0], b.res_pipe.v_mean_m_per_s.mean())
# (3) pipe cooling law + (4) consumer identities
net = pp.create_empty_network(fluid="water")
j = pp.create_junctions(net, 6, 5, 300)
pp.create_circ_pump_const_pressure(net, j[5], j[0], 6, 2, 365, type="pt")
pp.create_pipes_from_parameters(net, [0,1,3,4], [1,2,4,5], [0.3,0.5,0.5,0.3], 80, k_mm=0.1, u_w_per_m2k=4, text_k=283, sections=1, outer_diameter_mm=[90,90,100,100])
pp.create_heat_consumer(net, 1, 4, controlled_mdot_kg_per_s=0.4, qext_w=30000)
pp.create_heat_consumer(net, 2, 3, controlled_mdot_kg_per_s=0.3, deltat_k=25)
pp.create_heat_exchanger(net, 2, 3, 8000., 80.)
pp.pipeflow(net, mode="sequential", iter=100, tol_p=1e-10, tol_m=1e-10, tol_res=1e-6, tol_T=1e-8)
f = net.fluid
for p, r in zip(net.pipe.itertuples(), net.res_pipe.itertuples()):
    tin = r.t_from_k if r.mdot_from_kg_per_s>0 else r.t_to_k
    cp = (f.get_heat_capacity(tin)+f.get_heat_capacity(r.t_outlet_k))/2
    exp = p.text_k + (tin-p.text_k)*np.exp(-p.u_w_per_m2k*np.pi*p.outer_diameter_mm/1e3*p.length_km*1e3/(cp*abs(r.mdot_from_kg_per_s)))
    print("pipe", r.Index, "t_out", r.t_outlet_k, "law", float(exp), "diff", float(exp-r.t_outlet_k))
for tbl in ("heat_consumer","heat_exchanger"):
    for r in net["res_"+tbl].itertuples():
        cp = (f.get_heat_capacity(r.t_from_k)+f.get_heat_capacity(r.t_outlet_k))/2
        q = r.mdot_from_kg_per_s*cp*(r.t_from_k-r.t_outlet_k)
        print(tbl, r.Index, "m cp dT", float(q), "reported qext", getattr(r,"qext_w",None), "set", net[tbl].qext_w[r.Index], "deltat", getattr(r,"deltat_k",None))
print(net.res_circ_pump_pressure[["mdot_from_kg_per_s","deltat_k","qext_w","t_from_k","t_outlet_k"]])
qpipes = sum(abs(r.mdot_from_kg_per_s)*(f.get_heat_capacity(r.t_from_k)+f.get_heat_capacity(r.t_outlet_k))/2*(r.t_from_k-r.t_outlet_k) for r in net.res_pipe.itertuples())
print("sum consumers+hex+pipes", 30000+ float(net.res_heat_consumer.qext_w[1]) + 8000 + qpipes)
print(net.res_junction)

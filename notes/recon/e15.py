import warnings; warnings.filterwarnings("ignore")
import numpy as np, pandas as pd, logging
logging.disable(logging.CRITICAL)
import pandapipes as pp
pd.set_option("display.width",250); pd.set_option("display.max_columns",50)
def mk():
    net = pp.create_empty_network(fluid="lgas")
    j = pp.create_junctions(net, 6, 1.0, 293.15, height_m=[0,10,20,30,0,5])
    pp.create_ext_grid(net, 0, 1.0, 293.15)
    pp.create_pipes_from_parameters(net, [0,1,1,3,3,4], [1,2,3,4,5,5], 0.3, 50., k_mm=0.1)  # 3-4-5 triangle w/o load => zero flows; 2 dead end
    pp.create_sink(net, 3, 0.0)
    return net
res = {}
for nb in (True, False):
    for nm in ("constant","automatic"):
        net = mk()
        try:
            pp.pipeflow(net, use_numba=nb, nonlinear_method=nm, iter=50)
            res[(nb,nm)] = net.res_junction.p_bar.values.copy(); print(nb, nm, net._internal_results["iterations_hydraulics"], net.res_junction.p_bar.values, net.res_pipe.mdot_from_kg_per_s.values)
        except Exception as e: print(nb, nm, "FAIL", e)

#!/bin/bash
# usage: tools/try_mutant.sh <patch.diff> <Cxx> [more props]  -- applies the patch to /repo, runs the quick checks, reverts.
# Evidence and replays of these runs go to $VP_OUT_DIR (default /tmp/vp_mut), never to /verif/evidence.
set -u
P=$(readlink -f "$1"); shift
export VP_OUT_DIR=${VP_OUT_DIR:-/tmp/vp_mut}; mkdir -p $VP_OUT_DIR
cd /repo && git apply "$P" || { echo "patch does not apply"; exit 3; }
trap 'cd /repo && git checkout -- .' EXIT
cd /verif
for c in "$@"; do ./check $c --tier ${TIER:-quick} --seed ${VERIF_SEED:-1} 2>&1 | grep -E "VIOLATION|KNOWN|signature=|seed=|HARNESS" | cut -c1-300; echo "exit=${PIPESTATUS[0]}"; done

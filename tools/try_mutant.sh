#!/bin/bash
# usage: tools/try_mutant.sh <patch.diff> <Cxx> [more props]  -- applies the patch to /repo, runs the quick checks, reverts.
set -u
P=$1; shift
cd /repo && git apply "$P" || { echo "patch does not apply"; exit 3; }
cd /verif
for c in "$@"; do ./check $c --tier quick 2>&1 | grep -E "VIOLATION|KNOWN|seed=|HARNESS" | cut -c1-300; echo "exit=$?"; done
cd /repo && git checkout -- . 

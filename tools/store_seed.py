#!/usr/bin/env python3
"""usage: tools/store_seed.py <Cxx> <detected: yes|no|after-strengthening> "<which check / signature / note>"
copies a confirmed seeded change from /tmp/wt/<id>.out into /verif/seeded/<id>/ and records the confirmation."""
import json, os, re, shutil, sys
pid, detected, note = sys.argv[1], sys.argv[2], sys.argv[3]
src, dst = "/tmp/wt/%s.out" % pid, "/verif/seeded/%s" % pid
os.makedirs(dst, exist_ok=True)
for f in ("patch.diff", "demo.py"):
    shutil.copy(os.path.join(src, f), os.path.join(dst, f))
meta = json.load(open(os.path.join(src, "meta.json")))
meta["property"] = pid[:3]
conf = {}
import glob
for log in sorted(glob.glob("/tmp/confirm_*.log")):
    if os.path.exists(log):
        txt = open(log).read()
        m = re.search(r"== %s\n(.*?)(?=\n== |\Z)" % pid, txt, re.S)
        if m:
            blk = m.group(1)
            for key, pat in (("demo_exit_clean", r"demo clean exit=(\d+)"), ("demo_exit_patched", r"demo patched exit=(\d+)"),
                             ("tests_exit", r"tests exit=(\d+)")):
                mm = re.search(pat, blk)
                if mm:
                    conf[key] = int(mm.group(1))
            mm = re.search(r"tests exit=\d+ (.*)", blk)
            if mm:
                conf["tests_summary"] = mm.group(1).strip()
meta["confirmed_in_scratch_worktree"] = conf
meta["author"] = "fresh sub-agent given only the property text and a scratch worktree"
meta["detected_by_checks"] = detected
meta["detection_note"] = note
json.dump(meta, open(os.path.join(dst, "meta.json"), "w"), indent=1)
print(pid, conf, detected)

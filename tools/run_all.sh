#!/bin/bash
# usage: tools/run_all.sh [seed] [tier] [props...]  -- runs the registered checks one after another on /repo as it is.
# With VP_OUT_DIR set, evidence / replays go there (soak runs at other seeds must not replace the committed evidence).
SEED=${1:-1}; TIER=${2:-quick}; shift 2 2>/dev/null
PROPS=${@:-C01 C02 C03 C04 C05 C06 C07 C08 C09 C10 C11 C12 C13 C14 C15 C16 C17 C18 C19 C20}
cd "$(dirname "$(readlink -f "$0")")/.."
for c in $PROPS; do
  ./check $c --tier $TIER --seed $SEED 2>&1 | grep -E "VIOLATION|KNOWN|signature=|seed=|HARNESS|Error|Traceback" | cut -c1-400
  echo "$c exit=${PIPESTATUS[0]}"
done

#!/venv/bin/python
"""Regenerates /verif/MANIFEST.json from the table below (and validates it against the schema)."""
import json, os
ROOT = os.path.dirname(os.path.dirname(os.path.abspath(__file__)))

CLAIMED = {
 "C01": dict(
    technique="property-based testing (Hypothesis): generated networks, independent mass bookkeeping over result tables",
    text="Exploration: thousands of generated networks (all fluids, component mixes, outage patterns, label schemes, solver "
         "configurations; heating loops incl. open loops with make-up grid and parallel pumps; meshed lattices of up to 100 / 625 junctions for the size-independence of the bound; one case in three on a net object with a history - earlier run under reuse_internal_data with other values, failed run, touched result tables) per run; the oracle re-does the mass bookkeeping from the result tables alone with a round-off "
         "tolerance (1e-9 relative). Counterexamples shrink to small recipes that are replayed without Hypothesis. No absence claim.",
    note="Trusted: numpy/pandas, the documented sign conventions of the result tables. Non-converged generated nets are discards. "
         "One known finding (automatic damping freezes the slack mass) is suppressed by a narrow signature.",
    ref="DESIGN.md 4/C01"),
}
CLAIMED["C14"] = dict(
    technique="exhaustive enumeration of presence patterns + Hypothesis-generated option layerings against a reference merge; differential layered-vs-explicit pipeflow",
    text="Exploration with exhaustive sub-spaces: every option key x every presence pattern over the layers and all 2^8 iter/stage-limit "
         "patterns are enumerated completely against a three-layer reference merge; random multi-key layerings are generated; the "
         "observable effect is checked by comparing a layered pipeflow with a fresh run that gets the merged options explicitly "
         "(bit-equal results, same failure type); documented defaults (docstring) are compared with the defaults in force.",
    note="Trusted: the reference merge as transcribed from options.rst; numba is installed, its absence is simulated by patching the module flag.",
    ref="DESIGN.md 4/C14")
CLAIMED["C19"] = dict(
    technique="enumeration of the fluid / std-type libraries against an own file parser + Hypothesis-generated queries, user properties, integrals, mixtures, pump curves",
    text="Exploration with exhaustive sub-spaces: all library fluids x tabulated properties x tabulated points / mid-points / extrapolation, "
         "all pump and pipe standard types are enumerated against an independent parser of the data files; generated histories of pipe creations with per-pipe overrides must leave the library values in place; generated queries (scalar, array, "
         "Series), user-defined properties of the five classes with algebraic integral laws, mixtures and pump types are checked by law.",
    note="Trusted: the library data files, numpy.polyfit/polyval. Lists as query type are not claimed (the property quantifies over scalars, arrays, Series). "
         "Known finding: hydrogen slope vs stored derivative.",
    ref="DESIGN.md 4/C19")
CLAIMED["C05"] = dict(
    technique="model-based PBT of the Newton driver with scripted iteration histories + fault-injected end-to-end runs + generated run histories on one net object",
    text="Exploration: (1) the iteration driver is exercised with tens of thousands of generated per-iteration error/residual scripts "
         "(incl. NaN/inf, both damping strategies) through its real entry point and the verdict is checked against the script; (2) generated "
         "hydraulic and heating nets in all four modes with injected faults (absurd loads, iteration limits 0..3, zero tolerances, NaN "
         "parameters, contradictory controllers, no supply) - every stage is recorded by wrapping newton_raphson from outside; post-state after "
         "return (converged flag, finite results) and after raise (exception type, flag, no number in any result table); (3) histories of "
         "successful and failing runs on one net object, with pickle / JSON round trips, deep copies and touched result tables between the runs, and partial supply outages on two-district nets judged against the reference reachability model.",
    note="Trusted: the outside wrappers do not change behaviour. Documented input rejections (UserWarning) are not counted as non-convergence. "
         "Two known findings (duplicate controlled junction; bidirectional+automatic restore) are suppressed by narrow signatures.",
    ref="DESIGN.md 4/C05")
CLAIMED["C07"] = dict(
    technique="differential PBT: twin numba/numpy kernels on generated arrays, numba-vs-numpy end-to-end, model-free history check of matrix-update/reuse against a fresh net",
    text="Exploration: (1) the twin kernels are called directly with generated pit arrays over-sampling zero / tiny / NaN flow, equal end "
         "pressures, zero length, switched direction and compared to 1e-12 relative; (2) generated hydraulic and heating nets are solved "
         "with both engines in all modes and compared (NaN pattern, cross-run tolerance, convergence verdict); (3) generated load-edit "
         "histories on one net object (loads, fluid temperature, fixed pressures, pipe lengths, set-points under only_update_hydraulic_matrix + reuse_internal_data; switching steps with fresh data) are compared bit-exactly with a fresh net.",
    note="Trusted: the comparison tolerances of DESIGN 2.3 (Re/lambda lag the mass flow by one Newton step). Derivatives of the mean pressure "
         "are compared only for |dp| > 1e-4 p (unbounded cancellation). Transient kernels out of scope. Known finding: dead-end pump verdict.",
    ref="DESIGN.md 4/C07")
CLAIMED["C02"] = dict(
    technique="property-based testing (Hypothesis) against an independent re-implementation of the documented momentum equation and friction models",
    text="Exploration: generated networks (all library fluids, three friction models, both engines, heights, loss coefficients, multi-section "
         "pipes, ju/pi valves, heat exchangers, reverse flow, label variants; bidirectional heating loops; one case in three on a net object with a history, see recipe.solve_after_prelude) are solved with tight tolerances; for "
         "every flowing pipe (section), valve and heat exchanger the documented momentum equation is re-evaluated from the reported end "
         "pressures, mass flow and temperatures by refphys (own fluid-table parser, own Colebrook root finder), residual bound 1e-7 bar; "
         "reported Re, lambda, velocities, volume flows and norm factors must follow from the reported state.",
    note="Trusted: the documentation formulas as transcribed in vp/refphys.py (Nikuradse constant 1.14 for gases taken from the code), the "
         "library fluid tables. Section values of multi-section pipes come from Pipe.get_internal_results (contiguous pipe index only).",
    ref="DESIGN.md 4/C02")
CLAIMED["C03"] = dict(
    technique="property-based testing (Hypothesis): set-point identities re-evaluated on the result tables of generated networks",
    text="Exploration: generated hydraulic nets and heating loops with any number and placement of ext grids (several per junction, out of "
         "service), pressure / flow controllers (control_active on/off), compressors, pumps, circulation pumps and scaled loads; each "
         "documented set-point clause (mean ext-grid pressure, p_flow, controlled pressure, set mass flow, lift, absolute pressure ratio incl. "
         "hydrostatic term, pump curve at the reported volume flow, mdot*scaling) is an identity on the result tables with round-off "
         "tolerances (plus one Newton step for quantities evaluated from the previous iterate); one case in three on a net object with a history (earlier run with other set-points under reuse_internal_data, failed run, touched result tables).",
    note="Trusted: pump curve = numpy.polyval of the type's reg_par; over-determined junctions (ext grid + controlled junction) are not asserted; "
         "no clause at exactly zero flow through a pump/compressor (discontinuous lift).",
    ref="DESIGN.md 4/C03")
CLAIMED["C04"] = dict(
    technique="exhaustive enumeration of 2^k status-flag patterns on fixed topologies + Hypothesis-generated outage patterns, against a reference reachability model and a deleted-rest differential",
    text="Exploration with exhaustive sub-spaces: all 2^k patterns of in_service / opened / control_active flags (branches, ju and pi valves, "
         "flow controllers, heat consumers, junctions, feeders) on four fixed topologies (incl. junction-pipe valves at both ends of a pipe and in parallel, duty + stand-by pressure controller) are enumerated completely (k=8 quick, 10-12 thorough) "
         "and generated nets with outage patterns are added (one in three calculated on a net that was first calculated with everything in service); for each the NaN pattern of every result table (hydraulic and thermal columns) "
         "is compared with an independent BFS reachability model, the results are compared with those of the recipe from which everything "
         "unsupplied / out of service was deleted, and a net without supplied junction must raise PipeflowNotConverged.",
    note="Trusted: the reachability model of vp/refmodel.py (closed junction-pipe valve = open pipe end; reached out-of-service junctions are "
         "calculated; unsupplied junction t_k = ambient not asserted). Non-converged supplied nets are discards.",
    ref="DESIGN.md 4/C04")
CLAIMED["C06"] = dict(
    technique="metamorphic property-based testing: recipe vs relabelled / row-permuted / re-ordered recipe, results joined on element identity",
    text="Exploration: for generated hydraulic and heating recipes a transform tau (injective relabelling of every table incl. sparse, unsorted "
         "and >= 1e5 labels and multiples of the table length, row permutation of every table - also on a net object that has already been calculated -, permutation of the creation order, sector all<->None which changes the component "
         "order) is drawn; both recipes are built from scratch through the public API, solved with the same tight options and every result "
         "column of every table is compared row by row via the label maps (NaN pattern included).",
    note="Trusted: cross-run tolerances of DESIGN 2.3. Labels capped at 3e5. Nets in which a pump / compressor carries zero or reverse flow are "
         "discarded (discontinuous lift: several solutions possible), as are verdict mismatches of such nets, states with negative pressure (the library's own 'physically incorrect' criterion) and nets with a laminar branch under a turbulent-only friction model.",
    ref="DESIGN.md 4/C06")
CLAIMED["C08"] = dict(
    technique="metamorphic property-based testing: same network from generated start values and with both damping strategies, pairwise agreement of converged runs",
    text="Exploration: generated hydraulic nets (pn_bar scaled 0.3..3 per junction) and heating nets in the three situations where tfluid_k is a "
         "pure start value (bidirectional; sequential with a constant-property fluid; mode='heat' from one fixed hydraulic solution; shifts of "
         "+-40 K; optionally with a booster pump component) are solved with constant and automatic damping; every pair of converged runs is compared on all result columns (1e-6; 1e-4 for slowly, linearly converging cases).",
    note="Trusted: uniqueness of the solution for the Nikuradse law (hydraulic cases are restricted to it). Runs ending in the negative-pressure "
         "mirror solution (returned with a UserWarning) and runs that do not converge from a far start are discards. Known finding: non-unique "
         "solutions with pump / compressor bypass.",
    ref="DESIGN.md 4/C08")
CLAIMED["C09"] = dict(
    technique="metamorphic property-based testing: six physically neutral rewrites recipe -> recipe with predicted change of the results",
    text="Exploration: for generated hydraulic nets (all fluids) and heating loops one of the rewrites reverse / split-into-series / "
         "merge-sections / aggregate-loads / remove-disabled / shift-fixed-pressures is applied to a generated subset of elements; both "
         "recipes are built from scratch, solved with tight tolerances and compared column by column with the predicted mapping (sign and "
         "from/to swap for reversed branches, end values for split pipes, +c on pressures for the shift).",
    note="Trusted: cross-run tolerances of DESIGN 2.3 widened by an a-posteriori conditioning bound of the flows (compare.cond_flow_tol). "
         "Discards: pump / compressor at zero or reverse flow, verdict mismatches under Colebrook / Swamee-Jain. Known finding: start-temperature "
         "asymmetry next to an ext grid whose t_k differs from tfluid_k.",
    ref="DESIGN.md 4/C09")
CLAIMED["C10"] = dict(
    technique="property-based testing (Hypothesis) against the documented cooling law and junction energy balance re-evaluated with an independent heat-capacity table",
    text="Exploration: generated district-heating loops (meshes, >= 3 inflows, a second pump feeding the flow junction, reverse flow against the declared direction, 1-4 sections, u, "
         "ambient and outer-diameter variants, all consumer modes) and transport nets of every library fluid incl. gases (several feed temperatures, valves, heights) in modes sequential, bidirectional and heat with both engines; per flowing "
         "pipe section (walked in flow direction) the exponential cooling law, per junction the energy-conserving mix of the delivered stream "
         "temperatures, feeder temperatures and the min/max bounds are asserted with tolerances of 1e-6 K / 1e-6 relative "
         "(measured on the tree: 2e-11 K, 2e-12).",
    note="Trusted: cp table parsed from the library file; section temperatures from Pipe.get_internal_results; mass injected by sources / p-only "
         "grids enters at junction temperature. Non-converged generated loops are discards.",
    ref="DESIGN.md 4/C10")
CLAIMED["C11"] = dict(
    technique="property-based testing (Hypothesis): duty identities, consumer set-points and loop closure re-evaluated from the result tables",
    text="Exploration: generated loops with 1-6 consumers in all five specification modes, exchangers with/without flow control, Q of either "
         "sign, sequential and bidirectional mode: q = mdot*cp_mean*(T_in - T_out) for every exchanger / consumer, the two prescribed consumer "
         "quantities equal their set-points when mdot is prescribed or the mode is bidirectional, every circulation pump's reported heat equals the heat added to its own stream, and the pumps' heat (one pump, or two in parallel with different feed temperatures) "
         "closes the loop within the heat-capacity discretisation bound.",
    note="Trusted: cp table parsed from the library file. Known finding: sequential mode with (Q, T_ret) consumers.",
    ref="DESIGN.md 4/C11")
CLAIMED["C12"] = dict(
    technique="history-based property testing: generated operation lists on one net object with snapshot / repeat / fresh-net oracles",
    text="Exploration: generated lists of 3-8 operations (pipeflow in varying modes, engines, friction models, damping, failing settings, "
         "matrix-update / reuse options; edit-run-undo of parameters and of the wiring; set_user_pf_options; hydraulics followed by mode='heat' from the stored solution; pickle round trip / deepcopy / re-assigned result column between runs) "
         "are executed on one net object. After every calculation a deep snapshot of all element tables (values, dtypes, index), fluid, "
         "standard types and user options must be unchanged, an immediate repeat must be bit-identical and the result must be bit-identical "
         "to the same call on a freshly built net carrying the current parameters.",
    note="Trusted: net.converged and user_pf_options['hyd_flag'] are bookkeeping. reuse_internal_data across calls is covered by C07; "
         "bidirectional + automatic damping (known C05 finding) is not generated.",
    ref="DESIGN.md 4/C12")
CLAIMED["C16"] = dict(
    technique="model-based history testing: generated sequences of single / bulk create calls with one injected fault per call, snapshot and twin-net oracles",
    text="Exploration: generated histories of 4-14 calls over all 17 single and 11 bulk element-creating functions on nets of every sector; "
         "each call is valid (random optional arguments omitted) or carries exactly one injected fault. Accepted call: row count, returned / "
         "forced index, every given value (per-element values of bulk calls handed over as list, array or pandas Series with matching, shifted or foreign labels), documented defaults (parsed from the docstring) for omitted arguments, declared column dtypes, "
         "unique index, other tables untouched; rejected call: deep snapshot of the whole net unchanged; every bulk call is replayed as single "
         "calls on a twin net (values and dtypes); standard-type pipes / pumps are compared with elements created from the type's parameters; "
         "all references resolve at the end.",
    note="Trusted: docstring ':type x: T, default V' lines as the documented defaults; create_pressure_control's soft refusal. Known finding: "
         "a rejected call on a net lacking the component leaves a new empty table (component registered before validation).",
    ref="DESIGN.md 4/C16")
CLAIMED["C17"] = dict(
    technique="history-based differential testing of the toolbox against reference transforms + metamorphic physics check after relabelling",
    text="Exploration: generated nets containing junction-pipe valves, remote pressure controllers, circulation pumps and consumers get a "
         "generated list of 2-7 toolbox operations (reindex_junctions / pipes / elements, continuous-index functions, drop_junctions, drop_pipes, "
         "drop_elements_at_junctions, fuse_junctions, select_subnet with generated lookups - fresh, permuted, sparse, multiples of the table length - and junction sets). Before each operation the tables "
         "are copied and a small reference implementation of the operation is applied to the copy; the real tables must equal it row for "
         "row, every reference must resolve, after relabelling the pipeflow results must equal the previous ones up to the relabelling, and "
         "select_subnet of the supplied region must reproduce its results.",
    note="Trusted: the reference transforms of vp/props/c17.py (written from the docstrings); lookups respect the documented precondition "
         "(injective, not onto labels of unmapped rows); nets without pumps / compressors for the physics part.",
    ref="DESIGN.md 4/C17")
CLAIMED["C18"] = dict(
    technique="property-based testing (Hypothesis) of create_nxgraph / graph searches against a reference graph model, own Dijkstra and the solver's NaN pattern",
    text="Exploration: generated nets with consistent outage patterns (pi and ju valves, parallel branches, several islands, circulation pumps) "
         "and generated include_* / respect_status_* / multi / respect_status_junctions options: node set, one edge per included "
         "junction-junction branch with the right ends and weight, no edge for junction-pipe valves (closed ones remove their pipe), connected "
         "components vs a reference model, the three distance functions vs an own Dijkstra over pipe lengths, and unsupplied_junctions + "
         "out-of-service junctions vs the junctions without pressure result of a real pipeflow.",
    note="Trusted: reference graph built from the recipe; supply clause only asserted where the documented preconditions hold (flow "
         "controllers / heat consumers no bridges, pressure-controller direction irrelevant).",
    ref="DESIGN.md 4/C18")
CLAIMED["C15"] = dict(
    technique="round-trip property-based testing over the four storage paths with an own table / fluid / std-type comparison and a pipeflow on the loaded net",
    text="Exploration: generated hydraulic and heating nets with every component type, decorated with None / string names, extra columns, "
         "non-contiguous labels, user-defined fluid properties of four classes, generated pump types, user options, a ConstControl with "
         "DFData and optionally results, plus multinets with a P2G controller, are written and read through JSON string, JSON file, "
         "encrypted JSON and pickle. Oracles: nets_equal, an own comparison of every table (values, dtypes, index dtype, columns), fluid and "
         "standard-type fingerprints evaluated on a grid, component list, sector, name, user options, converged flag, and a pipeflow on the "
         "loaded net; one case in three loads the stored text twice, the first loaded copy being changed in place in between.",
    note="Trusted: JSON keeps 15 decimal places (pandas / pandapower encoder) - JSON paths compared with 1e-15 abs + 1e-14 rel, pickle exactly. "
         "Known finding: inf (default max_m_stored_kg) becomes NaN in JSON.",
    ref="DESIGN.md 4/C15")
CLAIMED["C13"] = dict(
    technique="differential property-based testing: generated time series (profiles, step subsets / orders, infeasible steps) vs stand-alone pipeflow per step",
    text="Exploration: generated nets get ConstControl profiles for a generated subset of sinks, sources (mass flow), ext grids "
         "(pressure, outage), valves (switching), pipes / exchangers (in_service), heat consumers, flow and pressure controllers (set-points) over 3-8 steps, with steps made infeasible on purpose, optionally with only_update_hydraulic_matrix + reuse_internal_data and with a controller that needs several control iterations per step; the series is run for a generated subset of steps in a generated "
         "order with and without continue_on_divergence (hydraulic and sequential mode). Every logged row of the OutputWriter must equal, bit "
         "for bit, a pipeflow on a freshly built net carrying that step's values; failing steps must be flagged (powerflow_failed) and must "
         "not alter later steps, or must stop the series with PipeflowNotConverged.",
    note="Trusted: pandapower's ConstControl / OutputWriter / DFData as the time-series infrastructure. Multi-energy time series are covered "
         "by C20's check.",
    ref="DESIGN.md 4/C13")
CLAIMED["C20"] = dict(
    technique="model-based and differential property-based testing: generated multinets and coupling controllers vs conversion formula and stand-alone member calculations",
    text="Exploration: multinets of pandapower's example_simple with 1-2 generated gas nets (six fluids with a heating value) get 1-4 "
         "generated P2G / G2P (power-led, gas-led) / G2G controllers with scalar or vector indices, efficiencies, scalings, orders and levels, "
         "optionally a G2P->G2G chain, an infeasible member net, or a 2-4 step time series. Written values must equal scaled input * efficiency "
         "at the heating value parsed from the fluid file (the chain asserts the eta1*eta2 product), every member net must equal a stand-alone "
         "pipeflow / runpp on a copy with the written values (gas bit-exact), and a failing member net must not let the coupled run return "
         "normally.",
    note="Trusted: pandapower's runpp, control loop and example network. Heat nets as multinet members are not generated (no coupling "
         "controller acts on them).",
    ref="DESIGN.md 4/C20")
NOT_YET = {}

def main():
    props = [json.loads(l) for l in open(os.path.join(ROOT, "properties.jsonl"))]
    checks, na = [], []
    for p in props:
        pid = p["id"]
        if pid in CLAIMED:
            c = CLAIMED[pid]
            checks.append({
                "property_id": pid,
                "quick_cmd": "./check %s --tier quick" % pid,
                "thorough_cmd": "./check %s --tier thorough" % pid,
                "evidence_file": "evidence/%s.json" % pid,
                "replay_cmd_template": "./check %s --replay {path}" % pid,
                "engine": "vp",
                "level_claimed": {"category": "exploration", "text": c["text"], "design_ref": c["ref"]},
                "level_note": c["note"],
                "technique": c["technique"],
            })
        else:
            na.append({"property_id": pid, "reason": NOT_YET.get(pid, "check not built yet in this phase (planned, see DESIGN.md section 4); nothing is claimed for it")})
    man = {
        "version": 1,
        "setup_cmd": "/venv/bin/python -c 'import hypothesis' 2>/dev/null || /venv/bin/pip install --no-index --find-links /opt/veriftools/wheels hypothesis",
        "hooks": {"guard": "PANDAPIPES_VERIF", "enable": "no source hooks are needed; checks import pandapipes from /repo/src (editable install + PYTHONPATH) and set PANDAPIPES_VERIF=1 only as a marker",
                  "baseline_off_cmd": "cd /repo && /venv/bin/python -m pytest -ra -q -p no:cacheprovider --timeout=900 --continue-on-collection-errors",
                  "source_commits": [], "add_only": True},
        "engines": [{"name": "vp", "path": "vp/", "serves_properties": [c["property_id"] for c in checks],
                     "kind_free_text": "Hypothesis-driven property-based testing framework: recipe generators, independent oracles, known-finding filter, collect-then-shrink, replay"}],
        "checks": checks,
        "not_applicable": na,
        "notes": "All checks: ./check <id> --tier quick|thorough, honour VERIF_SEED, exit 0/1/2 (2 = harness error, never a violation). known_findings.json lists known and fixed defects.",
    }
    json.dump(man, open(os.path.join(ROOT, "MANIFEST.json"), "w"), indent=1)
    try:
        import jsonschema
        jsonschema.validate(man, json.load(open("/root/.vp/MANIFEST.schema.json")))
        print("MANIFEST valid:", len(checks), "checks,", len(na), "not claimed")
    except ImportError:
        print("jsonschema missing; not validated")

if __name__ == "__main__":
    main()

#!/bin/bash
# usage: tools/confirm_seed.sh <Cxx> [full]   -- confirms a sub-agent's seeded change in a fresh scratch worktree:
#   demo exits 0 on the clean tree and 1 with the patch; patch touches library code only; (full) the whole test-suite passes.
set -u
ID=$1; FULL=${2:-}
OUT=/tmp/wt/$ID.out; W=/tmp/cf/$ID
mkdir -p /tmp/cf; git -C /repo worktree remove --force $W 2>/dev/null
git -C /repo worktree add --detach $W HEAD -q || exit 3
cd $W
echo "files: $(grep '^+++ ' $OUT/patch.diff | tr '\n' ' ')"
if grep '^+++ ' $OUT/patch.diff | grep -v 'b/src/pandapipes/' | grep -q . || grep '^+++ ' $OUT/patch.diff | grep -q '/test/'; then echo "PATCH TOUCHES NON-LIBRARY FILES"; fi
PYTHONPATH=$W/src timeout 600 /venv/bin/python $OUT/demo.py > $OUT/confirm_clean.log 2>&1; echo "demo clean exit=$?"
git apply $OUT/patch.diff || { echo "patch does not apply"; exit 3; }
PYTHONPATH=$W/src timeout 600 /venv/bin/python $OUT/demo.py > $OUT/confirm_patched.log 2>&1; echo "demo patched exit=$?"
if [ -n "$FULL" ]; then
  PYTHONPATH=$W/src /venv/bin/python -m pytest -q -p no:cacheprovider -n 8 --timeout=900 > $OUT/confirm_tests.log 2>&1; echo "tests exit=$? $(tail -1 $OUT/confirm_tests.log)"
fi
cd /; git -C /repo worktree remove --force $W

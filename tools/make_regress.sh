#!/bin/bash
# usage: tools/make_regress.sh <seeded-id> [seed]   e.g. tools/make_regress.sh C17b 2
# Applies /verif/seeded/<id>/patch.diff in a scratch worktree of /repo (/tmp/wt/mut, created if missing; /repo itself is not
# touched), runs the property's quick check against that tree with its output in a scratch directory, and copies the (at most
# two smallest) shrunk replays to /verif/regress/<property>/<id>__<hash>.json. These replays are cases on which the unchanged
# tree holds the property and the seeded change breaks it; `check` replays them on every run (the seconds-long regression tier).
# An optional third argument names another property whose check is to be used (a change can break several properties).
set -u
SID=$1; SEED=${2:-1}
PROP=${3:-$(python3 -c "import json;print(json.load(open('/verif/seeded/$SID/meta.json'))['property'])")}
W=/tmp/wt/mut
[ -d $W ] || git -C /repo worktree add --detach $W HEAD -q
git -C $W checkout -q -- . && git -C $W apply /verif/seeded/$SID/patch.diff || { echo "$SID: patch does not apply"; exit 3; }
OUT=/tmp/vp_reg/$SID; rm -rf $OUT; mkdir -p $OUT
cd /verif && VP_REPO_SRC=$W/src VP_OUT_DIR=$OUT ./check $PROP --tier quick --seed $SEED > $OUT/log 2>&1
echo "$SID $PROP exit=$? $(grep -c '^VIOLATION' $OUT/log) violations"
git -C $W checkout -q -- .
mkdir -p /verif/regress/$PROP
ls -S -r $OUT/replays/$PROP/*.json 2>/dev/null | head -2 | while read f; do cp $f /verif/regress/$PROP/${SID}__$(basename $f); done

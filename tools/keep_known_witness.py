#!/usr/bin/env python3
"""usage: tools/keep_known_witness.py [out_dir]  -- copies the witnesses of known findings that a run left under
<out_dir>/known_witness/<property>/ (default: /verif) into /verif/regress/<property>/ unless a witness of that signature is
already kept. A kept witness makes every later run reproduce the known finding (KNOWN-FINDING line) without relying on the
seed."""
import glob, json, os, shutil, sys
root = sys.argv[1] if len(sys.argv) > 1 else "/verif"
for f in sorted(glob.glob(os.path.join(root, "known_witness", "*", "known__*.json"))):
    prop = os.path.basename(os.path.dirname(f))
    dst = os.path.join("/verif/regress", prop, os.path.basename(f))
    if os.path.exists(dst) and os.path.getsize(dst) <= os.path.getsize(f):
        continue
    os.makedirs(os.path.dirname(dst), exist_ok=True)
    shutil.copy(f, dst)
    print("kept", dst, json.load(open(f))["signature"])

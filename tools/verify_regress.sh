#!/bin/bash
# usage: tools/verify_regress.sh  -- for every stored seeded change: apply it in the scratch worktree /tmp/wt/mut and replay its
# regression cases against that tree; each must report a VIOLATION (and, in the regular runs, hold on the unchanged tree).
W=/tmp/wt/mut
[ -d $W ] || git -C /repo worktree add --detach $W HEAD -q
cd /verif
for d in seeded/*; do
  sid=$(basename $d)
  git -C $W checkout -q -- . && git -C $W apply /verif/$d/patch.diff || { echo "$sid patch does not apply"; continue; }
  n=0; hit=0
  for f in regress/*/${sid}__*.json; do
    [ -f "$f" ] || continue
    prop=$(basename $(dirname $f)); n=$((n+1))
    VP_REPO_SRC=$W/src ./check $prop --replay $f 2>/dev/null | grep -q "^VIOLATION" && hit=$((hit+1))
  done
  echo "$sid replays=$n still_violated=$hit"
done
git -C $W checkout -q -- .
